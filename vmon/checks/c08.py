"""C08 - instancing a variable font preserves the design space that remains.

The real `instancer.instantiateVariableFont` runs under monitors (normalised limits,
rebaseTent calls, `_solve` branch sites, per-table handlers, snapshots of every
instanced ItemVariationStore); the verdict comes from HarfBuzz evaluating the saved
original and the saved instance at the same *user-space* location (original: pinned
axes at the pin) - outlines, advances, font-wide metrics, shaping - within a rounding
budget that is computed from the instance's own tuple lists, plus table-directory /
fvar checks for "static when fully pinned" and "user coordinates keep their meaning".
Thorough tier adds a rounding-suppressed run (TupleVariation.roundDeltas wrapped to a
no-op) compared through fontTools' own glyph set with a budget of 0.5 units.
"""
import io
import math
import random
from collections import Counter
from fractions import Fraction as F

from vmon import hooks, corpus, probes
from vmon.oracle import geom
from vmon.oracle import c08_tents as T
from vmon.oracle import c08_hbeval as E

PROPERTY = "C08"
LEVEL = "exploration"
RULE = ("a case is one variable font (corpus, or built from a generated designspace) x one axis-limit specification "
        "(per axis: untouched / pin at min, default, max, random / None / range containing the default / range with a "
        "moved default / range excluding the old default / degenerate range) x optimize x updateFontNames x downgradeCFF2; "
        "the instance is compared with the original through HarfBuzz at 3-8 user-space locations inside the new limits "
        "(new default, new corners, random); a case is non-trivial when at least one axis was really restricted and at "
        "least one glyph with variation data was judged at a non-default location or the font became static; distinct by "
        "(font, sorted per-axis limit kinds, optimize)")
ASSUMPTIONS = [
    "HarfBuzz 12.1 is the trusted evaluator of both fonts; locations are given to both in user space",
    "glyph budget at location x: 0.5 (new default rounded by _setCoordinates) + sum_t |scalar_t(x)| * (0.5 + 0.5*optimize) over the "
    "instance's own in-memory tuple list (scalars by an exact Fraction tent evaluator at HarfBuzz's normalised coordinates of the instance) "
    "+ 0.02 (float32) + half an F2Dot14 step x tent slope x max|delta| per surviving tuple (knots are stored as F2Dot14) + the measured movement "
    "of the *original* under K F2Dot14 steps per axis (K=1 for pinned axes, 2 for restricted axes without avar; with an avar map 2+ceil(slope/4) for pinned and "
    "4+ceil(0.75*steepest instance segment + 0.25*steepest original segment) for restricted axes: stored knots are F2Dot14, HarfBuzz works in 16.16, and the two fonts "
    "quantise the normalised location independently); composites add their components' budgets scaled by the "
    "component transform",
    "CFF2: rounding is per charstring operand (relative vectors), so outlines with identical operator sequences are compared operand by operand "
    "with the per-operand budget 0.5 + sum|scalar|*0.5 over the regions of the instanced VarStore; when the specializer changed the operator "
    "sequence the absolute comparison uses that budget times the number of points (errors accumulate along the path)",
    "advances: 1.5 + sum|scalar|*0.5 over the instanced HVAR regions (+ measured sensitivity): hmtx rounding, delta rounding, HarfBuzz integer rounding on "
    "both sides; glyf fonts whose HVAR disagrees with their gvar phantom points by more than 1 unit at the compared location are 'precondition not met' for advances "
    "(the instancer documents that it takes hmtx from gvar and HVAR from HVAR)",
    "metrics (MVAR): 1.5 + sum|scalar|*0.5 over the instanced MVAR regions; hasc/hdsc/hlgp only when HarfBuzz reads them from the table MVAR is defined on",
    "shaping: identical glyph sequences unless the original itself changes sequence within K steps of the location (feature-variation boundary); "
    "positions within the advance budget + 6 x (1.5 + sum|scalar|*0.5 over the instanced GDEF store regions)",
    "second route: fully pinned cases are also instanced by varLib.mutator.instantiateVariableFont (single rounding: glyph 0.5, +0.5 in x for a varying left phantom "
    "point, CFF2 operand 0.5, advances/metrics 1.5); avar2 and VARC fonts are outside that module's documented scope",
    "limits that the API rejects with NotImplementedError (VARC axes, nested CFF2 blends) are 'precondition not met'; when updateFontNames raises its documented "
    "ValueError (STAT lacks axis values) the case is repeated without it; downgradeCFF2 only when all axes are pinned",
    "avar2 fonts: partial instancing keeps the variation tables in the old space and compensates through the avar2 VarStore with a residual the library itself "
    "bounds only heuristically (_AVAR2_OFFSET_WARN_THRESHOLD = 8 F2Dot14 units); such cases are judged at all sampled locations with K=8 steps "
    "(that threshold; measured errors on the corpus avar2 font stay below 0.07 units); fully pinned avar2 instances use K = the observed difference between the library's normalised pins and HarfBuzz's (capped at 8)",
]
REQUIRED_MONITORS = ["instantiateVariableFont", "mutator.instantiateVariableFont", "AxisLimits.normalize", "rebaseTent", "instantiateTupleVariationStore",
                     "_instantiateGvarGlyph", "instantiateItemVariationStore", "instantiateHVAR", "instantiateMVAR",
                     "instantiateOTL", "instantiateCFF2", "instantiateAvar", "instantiateFvar", "instantiateSTAT",
                     "instantiateFeatureVariations"]
CASE_TIMEOUT = 300
MANIFEST = {
    "text": "Exploration: every complete variable font of the corpus and variable fonts built from generated designspaces (glyf/gvar with composites and CFF2; avar, HVAR, MVAR, variable GPOS/GDEF, feature variations) are instanced by the real instantiateVariableFont with seeded axis-limit specifications (pins, None, ranges with and without the old default, moved defaults, degenerate ranges, all mixes) x optimize x updateFontNames x downgradeCFF2 under monitors (normalised limits, rebaseTent and _solve branch coverage, per-table handlers, snapshots of every instanced VarStore). HarfBuzz evaluates the saved original and the saved instance at the same user-space locations (new default, new corners, random) and compares outlines, advances, MVAR metrics and shaping within a rounding budget computed from the instance's own tuple list with an exact Fraction tent evaluator; fully pinned instances must have no fvar/gvar/HVAR/VVAR/MVAR/avar/cvar and no variation data; partial instances must expose exactly the requested axis ranges. The thorough tier adds a rounding-suppressed second run (roundDeltas wrapped to a no-op, optimize off) whose error must stay within 0.5 units regardless of tuple count. Tests cannot settle this because they compare about 86 fixed-coordinate cases with stored TTX.",
    "note": "Trusted base: HarfBuzz 12.1, the Fraction tent evaluator (vmon/oracle/c08_tents.py), geometry comparison (vmon/oracle/geom.py). Budgets are derived per glyph and location (see assumptions in the evidence). avar2 partial instancing is judged with the library's own 8-step residual threshold.",
    "technique": "monitors on the real instancer functions + differential evaluation original vs instance through HarfBuzz at user-space locations with computed rounding budgets; rounding-suppression hook for a sharper second monitor",
    "design_ref": "DESIGN.md §4 C08",
}

VAR_TABLES = ["fvar", "gvar", "HVAR", "VVAR", "MVAR", "avar", "cvar"]

_cur = {}


def _reset():
    _cur.clear()
    _cur.update({"norm": None, "ivs": [], "handlers": Counter(), "rebase": 0, "rebase_out": Counter(), "stack": [],
                 "tvs_calls": 0, "norm_calls": 0})


_reset()


# ---------------------------------------------------------------- monitors
def setup():
    from fontTools.varLib import instancer
    from fontTools.varLib.instancer import solver, featureVars

    def post_norm(st, a, kw, res, exc):
        _cur["norm_calls"] += 1
        if exc is None and (len(a) < 3 or a[2]):      # usingAvar=True: the limits the tables are instanced with
            _cur["norm"] = {k: tuple(float(x) for x in tuple(v)[:3]) + tuple(tuple(v)[3:]) for k, v in res.items()}

    def post_rebase(st, a, kw, res, exc):
        _cur["rebase"] += 1
        if exc is None:
            _cur["rebase_out"]["solutions=%d" % len(res)] += 1

    def handler(name):
        def pre(a, kw):
            _cur["stack"].append(name)
            return None

        def post(st, a, kw, res, exc):
            if _cur["stack"] and _cur["stack"][-1] == name:
                _cur["stack"].pop()
            _cur["handlers"][name] += 1
        return pre, post

    def post_ivs(st, a, kw, res, exc):
        if exc is not None:
            return
        store, fvarAxes, limits = a[0], a[1], a[2]
        # the instanced store's regions list only the axes that are not pinned, in fvar order
        pinned = {t for t, v in limits.items() if v[0] == v[2]}
        order = [ax.axisTag for ax in fvarAxes if ax.axisTag not in pinned]
        regs = []
        for r in store.VarRegionList.Region:
            d = {}
            for tag, ra in zip(order, r.VarRegionAxis):
                if ra.PeakCoord != 0:
                    d[tag] = (ra.StartCoord, ra.PeakCoord, ra.EndCoord)
            regs.append(d)
        per_major = []
        for vd in store.VarData:
            mx = {}
            for ri in vd.VarRegionIndex:
                mx[ri] = 0
            for row in vd.Item:
                for ri, d in zip(vd.VarRegionIndex, row):
                    if abs(d) > mx[ri]:
                        mx[ri] = abs(d)
            per_major.append([(regs[ri], mx[ri]) for ri in vd.VarRegionIndex])
        _cur["ivs"].append({"table": _cur["stack"][-1] if _cur["stack"] else "?", "majors": per_major})

    def post_tvs(st, a, kw, res, exc):
        _cur["tvs_calls"] += 1

    hooks.attach(instancer, "instantiateVariableFont", name="instantiateVariableFont")
    from fontTools.varLib import mutator

    hooks.attach(mutator, "instantiateVariableFont", name="mutator.instantiateVariableFont")
    hooks.attach(instancer.AxisLimits, "normalize", post=post_norm, name="AxisLimits.normalize")
    hooks.attach(solver, "rebaseTent", post=post_rebase, name="rebaseTent")
    hooks.attach(instancer, "instantiateTupleVariationStore", post=post_tvs, name="instantiateTupleVariationStore")
    hooks.attach(instancer, "_instantiateGvarGlyph", name="_instantiateGvarGlyph")
    hooks.attach(instancer, "instantiateItemVariationStore", post=post_ivs, name="instantiateItemVariationStore")
    for fn in ("instantiateHVAR", "instantiateVVAR", "instantiateMVAR", "instantiateOTL", "_instantiateBASE", "instantiateCFF2",
               "instantiateGvar", "instantiateCvar", "instantiateAvar", "instantiateFvar", "instantiateSTAT", "instantiateVARC",
               "downgradeCFF2ToCFF", "_instantiateAvarV2", "_instantiateFvarForAvar2"):
        pre, post = handler(fn)
        hooks.attach(instancer, fn, pre=pre, post=post, name=fn)
    pre, post = handler("instantiateFeatureVariations")
    hooks.attach(featureVars, "instantiateFeatureVariations", pre=pre, post=post, name="instantiateFeatureVariations")
    for name, pat in (("solve:mirror", r"_reverse_negate\(tent\),"), ("solve:case1-drop", r"return \[\]  # No overlap"),
                      ("solve:case2-peak-outside", r"mult = supportScalar"), ("solve:case3a-crossing", r"crossing = peak \+"),
                      ("solve:case3a1", r"loc = \(crossing, axisMax, axisMax\)"), ("solve:case3a2", r"loc1 = \(crossing, upper, axisMax\)"),
                      ("solve:case4", r"loc1 = \(max\(axisDef, lower\), peak, axisMax\)"), ("solve:case1neg", r"loc = \(axisMin, axisMin, axisDef\)"),
                      ("solve:case2neg", r"loc1 = \(axisMin, lower, axisDef\)")):
        probes.add_site(name, solver._solve, pat)


REQUIRED_SITES = ["solve:mirror", "solve:case1-drop", "solve:case2-peak-outside", "solve:case3a-crossing", "solve:case3a1",
                  "solve:case4", "solve:case1neg", "solve:case2neg"]


# ---------------------------------------------------------------- cases
SKIP_FONTS = set()


def cases(tier, seed):
    Tt = tier == "thorough"
    cs = []
    recs = corpus.fonts(pred=lambda r: r["variable"] and r["complete"])
    for r in recs:
        nax = len(r["axes"])
        n = (24 if Tt else 6) if nax <= 3 else (16 if Tt else 4)
        if r["path"].startswith("ttLib/data/varc-"):
            n = 3 if Tt else 2
        if "test_results" in r["path"]:
            n = 6 if Tt else 2
        for k in range(n):
            cs.append({"id": "corpus:%s:%d" % (r["path"], k), "src": "corpus", "path": r["path"], "k": k, "seed": seed})
    ngen = 160 if Tt else 32
    for i in range(ngen):
        kind = "ttf" if i % 2 == 0 else "cff"
        for k in range(4 if Tt else 2):
            cs.append({"id": "gen:%s:%d:%d" % (kind, i, k), "src": "gen", "kind": kind, "i": i, "k": k + 2 * (i % 3), "seed": seed})
    if Tt:
        for r in recs:
            if r["outlines"] == "glyf" and not r["path"].startswith("ttLib/data/varc-") and "avar2" not in r["path"]:
                for k in range(6):
                    cs.append({"id": "nornd:%s:%d" % (r["path"], k), "src": "corpus", "path": r["path"], "k": k, "seed": seed, "nornd": True})
        for i in range(40):
            for k in range(2):
                cs.append({"id": "nornd-gen:%d:%d" % (i, k), "src": "gen", "kind": "ttf", "i": i, "k": k, "seed": seed, "nornd": True})
    return cs


# ---------------------------------------------------------------- originals (cached per worker process)
_orig_cache = {}


def _original(case, ctx):
    """-> dict(bytes, info) of the original font with a PUA cmap for every glyph."""
    key = (case["src"], case.get("path"), case.get("kind"), case.get("i"), case["seed"] if case["src"] == "gen" else 0)
    if key in _orig_cache:
        return _orig_cache[key]
    from fontTools.ttLib import TTFont

    if case["src"] == "corpus":
        font = corpus.open_bytes(corpus.font_bytes(case["path"]))
    else:
        from fontTools import varLib
        from vmon.gen import c10_ds

        rnd = random.Random("c08gen/%s/%s/%s" % (case["kind"], case["i"], case["seed"]))
        twin = case["i"] % 4 in (0, 1)
        axsp = case["i"] % 4 == 3          # glyphs with masters along one axis only -> several VarData / sub-models
        g = c10_ds.make(rnd, kind=case["kind"], rules=(case["i"] % 3 != 2) or twin, n_extra=rnd.choice([1, 2, 3]), twin=twin,
                        naxes=rnd.choice([2, 2, 3]) if (twin or axsp) else None, axis_sparse=True if axsp else None)
        twin_axes = g["twin_axes"]
        axis_sparse_tags = list(g["axis_sparse"])
        with hooks.quiet():
            font, _, _ = varLib.build(g["ds"], optimize=bool(case["i"] % 2))
        font = corpus.open_bytes(corpus.save_bytes(font))
        ndup = _shadowed_pair_subtable(font)
        vs_enc = None
        if "CFF2" in font and axsp:
            vs_enc = "implied" if case["i"] % 8 == 7 else "explicit"
            if not _explicit_private_vsindex(font, vs_enc == "implied"):
                vs_enc = None
    order = corpus.fix_glyph_names(font)
    repairs = []
    if case["src"] != "gen":
        twin_axes, ndup, axis_sparse_tags, vs_enc = [], 0, [], None
    if "cmap" in font and len(order) > 1:
        corpus.add_pua(font)
    if "name" not in font:
        # 'name' is a required table; the instancer prunes unused name records unconditionally
        from fontTools.ttLib import newTable

        font["name"] = newTable("name")
        font["name"].names = []
        repairs.append("added empty name table")
    if "MVAR" in font:
        recs = font["MVAR"].table.ValueRecord
        if [r.ValueTag for r in recs] != sorted(r.ValueTag for r in recs):
            # the MVAR spec requires records sorted by tag (readers binary-search them)
            font["MVAR"].table.ValueRecord = sorted(recs, key=lambda r: r.ValueTag)
            repairs.append("sorted MVAR value records")
    data = corpus.save_bytes(font)
    font = corpus.open_bytes(data)
    info = {"bytes": data, "order": order, "has_avar": "avar" in font,
            "avar2": "avar" in font and getattr(font["avar"], "majorVersion", 1) >= 2,
            "avar_segments": {t: dict(m) for t, m in font["avar"].segments.items()} if "avar" in font else {},
            "tables": sorted(font.keys()), "composites": _composites(font),
            "hvar_map": None, "mvar": None, "typo_ok": _typo_consistent(font),
            "varc": "VARC" in font, "repairs": repairs, "phantom_var": _phantom_var(font), "lsb_not_xmin": _lsb_not_xmin(font),
            "twin_axes": twin_axes, "shadowed_pair_subtables": ndup, "axis_sparse_tags": axis_sparse_tags, "private_vsindex": vs_enc,
            "use_typo_bit": "OS/2" in font and font["OS/2"].version >= 4 and bool(font["OS/2"].fsSelection & 0x80)}
    if "HVAR" in font:
        hv = font["HVAR"].table
        m = hv.AdvWidthMap.mapping if hv.AdvWidthMap else None
        info["hvar_map"] = {g: ((m[g] >> 16) if m else 0) for g in order} if m else None
    if len(_orig_cache) > 8:
        _orig_cache.clear()
    _orig_cache[key] = info
    return info


def _explicit_private_vsindex(font, implied=True):
    """Generated CFF2 fonts with several VarData: re-encode so that the Private dict names VarData 1 as its default
    (`vsindex 1`); charstrings that used the implicit VarData 0 get an explicit `0 vsindex`, those that selected 1
    lose their now implied operator (implied=True) or keep it as a redundant one (implied=False).  Same font, other
    (equally valid) encoding."""
    top = font["CFF2"].cff.topDictIndex[0]
    store = getattr(top, "VarStore", None)
    if store is None or len(store.otVarStore.VarData) < 2:
        return False
    privs = []
    for fd in top.FDArray:
        if fd.Private not in privs:
            privs.append(fd.Private)
    if any(hasattr(p, "vsindex") for p in privs):
        return False
    cs_all = top.CharStrings
    for name in cs_all.keys():
        cs = cs_all[name]
        cs.decompile()
        prog = cs.program
        if len(prog) >= 2 and prog[1] == "vsindex":
            if prog[0] == 1 and implied:
                del prog[:2]
        elif "blend" in prog:
            prog[0:0] = [0, "vsindex"]
    for p in privs:
        p.vsindex = 1
    return True


def _shadowed_pair_subtable(font):
    """Generated fonts: give every kerning lookup that starts with a PairPos format 1 subtable a second format 1
    subtable repeating the same pairs with other values (what AFDKO-style 'exception + enumerated class' kerning or a
    `subtable;` break produce).  OpenType: the first subtable that holds the pair wins, so the copies are shadowed."""
    from copy import deepcopy

    n = 0
    if "GPOS" not in font:
        return n
    for lookup in font["GPOS"].table.LookupList.Lookup:
        st = lookup.SubTable
        if lookup.LookupType == 2 and st and st[0].Format == 1 and not (len(st) > 1 and st[1].Format == 1):
            dup = deepcopy(st[0])
            for ps in dup.PairSet:
                for rec in ps.PairValueRecord:
                    if rec.Value1 is not None:
                        rec.Value1.XAdvance = (getattr(rec.Value1, "XAdvance", 0) or 0) + 111
            if not (dup.ValueFormat1 & 0x0004):
                continue
            st.insert(1, dup)
            lookup.SubTableCount = len(st)
            n += 1
    return n


def _lsb_not_xmin(font):
    out = set()
    if "glyf" in font and "hmtx" in font:
        glyf, hm = font["glyf"], font["hmtx"].metrics
        for g in font.getGlyphOrder():
            gl = glyf[g]
            if gl.numberOfContours and hasattr(gl, "xMin") and g in hm and hm[g][1] != gl.xMin:
                out.add(g)
    return out


def _phantom_var(font):
    """glyphs whose left phantom point moves in the original (HarfBuzz shifts the outline by it, and the
    instancer has to round it into hmtx.lsb and into every surviving tuple)"""
    out = set()
    if "gvar" not in font:
        return out
    for g, tvs in font["gvar"].variations.items():
        for tv in tvs or []:
            c = tv.coordinates
            if len(c) >= 4 and c[-4] is not None and c[-4][0] != 0:
                out.add(g)
                break
    return out


def _typo_consistent(font):
    if "OS/2" not in font or "hhea" not in font:
        return False
    o, h = font["OS/2"], font["hhea"]
    if o.version >= 4 and o.fsSelection & 0x80:
        return True
    return (o.sTypoAscender, o.sTypoDescender, o.sTypoLineGap) == (h.ascent, h.descent, h.lineGap)


def _composites(font):
    out = {}
    if "glyf" not in font:
        return out
    glyf = font["glyf"]
    for g in font.getGlyphOrder():
        gl = glyf[g]
        if gl.isComposite():
            comps = []
            for c in gl.components:
                t = getattr(c, "transform", None)
                nrm = 1.0 if t is None else max(abs(t[0][0]) + abs(t[1][0]), abs(t[0][1]) + abs(t[1][1]))
                comps.append((c.glyphName, max(1.0, nrm)))
            out[g] = comps
    return out


# ---------------------------------------------------------------- limit specifications
def _rv(rnd, lo, hi):
    if hi <= lo:
        return lo
    r = rnd.random()
    v = rnd.uniform(lo, hi)
    if r < 0.4:
        v = round(v)
    elif r < 0.7:
        v = round(v, 1)
    else:
        v = round(v, 3)
    return min(hi, max(lo, v))


def gen_limits(rnd, axes, k, keep=(), pin=()):
    """axes: [(tag, min, default, max)] -> (limits dict for the API, kinds {tag: kind}).
    Axes in `keep` are left untouched or restricted to their full range (their normalised space stays as it is)."""
    lim, kinds = {}, {}

    def one(tag, lo, df, hi, choice):
        if choice == "keep" or hi == lo:
            return
        if choice == "none":
            lim[tag] = None
        elif choice == "pin-min":
            lim[tag] = lo
        elif choice == "pin-max":
            lim[tag] = hi
        elif choice == "pin-default":
            lim[tag] = df
        elif choice == "pin-random":
            lim[tag] = _rv(rnd, lo, hi)
        elif choice == "range-default":
            a = _rv(rnd, lo, df)
            c = _rv(rnd, df, hi)
            if a == c:
                a, c = lo, hi
            lim[tag] = (a, c)
        elif choice == "range-moved":
            a = _rv(rnd, lo, hi)
            c = _rv(rnd, a, hi)
            b = _rv(rnd, a, c)
            if rnd.random() < 0.3:
                b = rnd.choice([a, c])
            lim[tag] = (a, b, c)
        elif choice == "range-excl":
            # a range that does not contain the old default (when the axis has room for one)
            if df - lo >= hi - df and df > lo:
                a = _rv(rnd, lo, (lo + df) / 2)
                c = _rv(rnd, a, (lo + 3 * df) / 4)
            elif hi > df:
                a = _rv(rnd, (3 * df + hi) / 4, hi)
                c = _rv(rnd, a, hi)
            else:
                a, c = lo, hi
            if rnd.random() < 0.5:
                lim[tag] = (a, c)
            else:
                lim[tag] = (a, _rv(rnd, a, c), c)
        elif choice == "range-degenerate":
            v = _rv(rnd, lo, hi)
            lim[tag] = (v, v) if rnd.random() < 0.5 else (v, v, v)
        elif choice == "range-full":
            lim[tag] = (lo, hi)
        kinds[tag] = choice

    pins = ["pin-min", "pin-max", "pin-default", "pin-random", "none"]
    ranges = ["range-default", "range-moved", "range-excl", "range-degenerate", "range-full"]
    for tag, lo, df, hi in axes:
        if k == 0:
            c = rnd.choice(["none", "pin-default"])
        elif k == 1:
            c = rnd.choice(["pin-random", "pin-random", "pin-min", "pin-max"])
        elif k == 2:
            c = "range-default"
        elif k == 3:
            c = rnd.choice(["range-moved", "range-excl"])
        elif k == 4:
            c = rnd.choice(pins + ranges)
        else:
            c = rnd.choice(["keep", "keep"] + pins + ranges + ranges)
        if tag in keep:
            c = rnd.choice(["keep", "range-full"])
        if tag in pin:
            c = rnd.choice(["pin-random", "pin-default", "pin-min", "pin-max", "none"])
        one(tag, lo, df, hi, c)
    if not lim and keep:
        tag, lo, df, hi = next(a for a in axes if a[0] in keep)
        one(tag, lo, df, hi, "range-full")
    if not lim:
        tag, lo, df, hi = rnd.choice(axes)
        one(tag, lo, df, hi, rnd.choice(["pin-random", "range-moved"]))
    return lim, kinds


def effective_limits(axes, lim):
    """What the API documents: values clamped to the fvar range, missing default = old default
    clamped into the new range.  -> {tag: (a, b, c)} for touched axes."""
    out = {}
    for tag, lo, df, hi in axes:
        if tag not in lim:
            continue
        v = lim[tag]
        if v is None:
            out[tag] = (df, df, df)
        elif isinstance(v, (int, float)):
            p = min(hi, max(lo, v))
            out[tag] = (p, p, p)
        elif len(v) == 2:
            a, c = (min(hi, max(lo, x)) for x in v)
            out[tag] = (a, min(c, max(a, df)), c)
        else:
            a, b, c = (min(hi, max(lo, x)) for x in v)
            out[tag] = (a, b, c)
    return out


def sample_locations(rnd, remaining, n_random):
    """remaining: [(tag, a, b, c)] -> list of {tag: value}"""
    if not remaining:
        return [{}]
    locs = [{t: b for t, a, b, c in remaining}, {t: a for t, a, b, c in remaining}, {t: c for t, a, b, c in remaining}]
    for t, a, b, c in remaining[:3]:
        for v in (a, c):
            d = {u: bb for u, aa, bb, cc in remaining}
            d[t] = v
            locs.append(d)
    for _ in range(n_random):
        locs.append({t: (rnd.uniform(a, c) if rnd.random() < 0.8 else rnd.choice([a, b, c])) for t, a, b, c in remaining})
    out, seen = [], set()
    for l in locs:
        key = tuple(sorted(l.items()))
        if key not in seen:
            seen.add(key)
            out.append(l)
    return out


# ---------------------------------------------------------------- budgets
def knot_budget(regs):
    tot = F(0)
    for region, mx in regs:
        if not mx:
            continue
        for tag, (s, p, e) in region.items():
            s, p, e = F(s), F(p), F(e)
            if p == 0:
                continue
            widths = [w for w in (p - s, e - p) if w > 0]
            if widths:
                tot += F(mx) * T.STEP / 2 / min(widths)
    return float(tot)


def snapshot_gvar(inst):
    """{glyph: [(axes, max|delta|)]} from the in-memory instance (before compile drops all-zero tuples)."""
    out = {}
    if "gvar" not in inst:
        return out
    for g, tvs in inst["gvar"].variations.items():
        regs = []
        for tv in tvs or []:
            mx = 0
            for c in tv.coordinates:
                if c is not None:
                    mx = max(mx, abs(c[0]), abs(c[1]))
            regs.append(({k: tuple(v) for k, v in tv.axes.items()}, mx))
        out[g] = regs
    return out


def ivs_budget(snap, loc, per_unit, major=None):
    """(sum |scalar| * per_unit, knot term) over one major (or the worst major) of an IVS snapshot."""
    if snap is None:
        return 0.0, 0.0
    majors = snap["majors"]
    if major is not None and major < len(majors):
        majors = [majors[major]]
    worst = (0.0, 0.0)
    for regs in majors:
        s = float(T.abs_scalar_sum(loc, [r for r, _ in regs])) * per_unit
        kb = knot_budget(regs)
        if s + kb > worst[0] + worst[1]:
            worst = (s, kb)
    return worst


def _find_ivs(table):
    for s in _cur["ivs"]:
        if s["table"] == table:
            return s
    return None


# ---------------------------------------------------------------- run
def run_case(case, ctx):
    from fontTools.varLib import instancer
    from fontTools.ttLib import TTFont

    rnd = random.Random("%s/%s" % (case["id"], case["seed"]))
    info = _original(case, ctx)
    _reset()
    if case.get("nornd"):
        return run_nornd(case, ctx, info, rnd)
    O = E.View(info["bytes"])
    axes = O.axes
    if not axes:
        ctx.skip("no axes")
        return
    ast = info["axis_sparse_tags"]
    lim, kinds = gen_limits(rnd, axes, case["k"], keep=(info["twin_axes"] or ast[1:2]) if case["k"] % 2 else (),
                            pin=ast[:1] if case["k"] % 2 else ())
    eff = effective_limits(axes, lim)
    pinned = {t: v[1] for t, v in eff.items() if v[0] == v[2]}
    full = len(pinned) == len(axes)
    optimize = rnd.random() < 0.5
    upd_names = "STAT" in O.tags and rnd.random() < 0.25
    downgrade = full and "CFF2" in O.tags and rnd.random() < 0.5
    font = corpus.open_bytes(info["bytes"])
    inst = None
    if upd_names:
        # documented: updateFontNames raises ValueError when STAT lacks the Axis Values it needs
        import traceback as _tb

        try:
            inst = instancer.instantiateVariableFont(font, dict(lim), optimize=optimize, updateFontNames=True, downgradeCFF2=downgrade)
        except NotImplementedError:
            ctx.skip("instancer documents this restriction as unsupported (NotImplementedError)")
            return
        except Exception as e:
            frames = _tb.extract_tb(e.__traceback__)
            if isinstance(e, ValueError) and frames and frames[-1].filename.endswith("instancer/names.py"):
                ctx.note("updateFontNames-rejected (STAT axis values missing)")
            else:
                # undocumented failure of updateFontNames: recorded as a violation, then the case goes on without it
                from vmon.case import exc_mech

                ctx.judged()
                ctx.violation(exc_mech("instantiateVariableFont", e, option="updateFontNames"),
                              "instantiateVariableFont(updateFontNames=True) raised %s: %s" % (type(e).__name__, str(e)[:200]),
                              {"case": case["id"], "font": case.get("path"), "limits": {t: (list(v) if isinstance(v, tuple) else v) for t, v in lim.items()},
                               "traceback": _tb.format_exception(type(e), e, e.__traceback__)[-8:]})
            upd_names = False
            font = corpus.open_bytes(info["bytes"])
            _reset()
    if inst is None:
        with ctx.lib("instantiateVariableFont", expected=(NotImplementedError,),
                     skip_reason="instancer documents this restriction as unsupported (NotImplementedError)"):
            inst = instancer.instantiateVariableFont(font, dict(lim), optimize=optimize, updateFontNames=upd_names, downgradeCFF2=downgrade)
    gsnap = snapshot_gvar(inst)
    with ctx.lib("save"):
        ib = corpus.save_bytes(inst)
    for h, n in _cur["handlers"].items():
        ctx.note("handler:" + h, n)
    ctx.note("rebaseTent-calls", _cur["rebase"])
    for kk, n in _cur["rebase_out"].items():
        ctx.note("rebaseTent:" + kk, n)
    for kind in set(kinds.values()):
        ctx.note("limit-kind:" + kind)
    ctx.note("optimize=%s" % optimize)
    if downgrade:
        ctx.note("downgradeCFF2")
    if upd_names:
        ctx.note("updateFontNames")
    I = E.View(ib)
    avar2_partial = info["avar2"] and not full
    witness = {"case": case["id"], "font": case.get("path") or "generated %s #%s" % (case.get("kind"), case.get("i")),
               "limits": {t: (list(v) if isinstance(v, tuple) else v) for t, v in lim.items()}, "optimize": optimize,
               "updateFontNames": upd_names, "downgradeCFF2": downgrade}

    # ---- structure: static when fully pinned / requested ranges otherwise
    ctx.judged()
    if full:
        left = [t for t in VAR_TABLES if t in I.tags]
        if left or I.h.face.has_var_data:
            ctx.violation({"kind": "not-static", "what": "variation tables left after pinning all axes", "tables": left},
                          "all axes pinned but the saved instance still has %s (has_var_data=%s)" % (left, I.h.face.has_var_data), witness)
        if downgrade and ("CFF2" in I.tags or "CFF " not in I.tags):
            ctx.violation({"kind": "downgrade", "what": "downgradeCFF2 did not produce a CFF table"},
                          "downgradeCFF2=True on a fully pinned font, tables: %s" % sorted(I.tags), witness)
    else:
        want = [(t, eff[t] if t in eff else (lo, df, hi)) for t, lo, df, hi in axes if t not in pinned]
        got = [(t, (lo, df, hi)) for t, lo, df, hi in I.axes]
        if avar2_partial:
            got = [(t, v) for t, v in got if t not in pinned]     # pinned axes may stay as hidden axes
        ok = len(want) == len(got) and all(tw == tg and all(abs(x - y) <= 1.6e-5 * max(1, abs(x)) + 1.6e-5 for x, y in zip(vw, vg))
                                           for (tw, vw), (tg, vg) in zip(want, got))
        if not ok:
            ctx.violation({"kind": "fvar-axes", "what": "instance axes differ from the requested limits"},
                          "instance fvar axes %s, requested %s" % (got, want), witness)
    remaining = [(t,) + tuple(eff[t] if t in eff else (lo, df, hi)) for t, lo, df, hi in axes if t not in pinned]

    # ---- K steps per original axis
    isegs = {}
    if "avar" in I.tags:
        ifont = corpus.open_bytes(ib)
        isegs = {t: dict(m) for t, m in ifont["avar"].segments.items()}
    steps = []
    for t, lo, df, hi in axes:
        oseg = info["avar_segments"].get(t) or {}
        has_map = len(oseg) > 3 or (isegs.get(t) and len(isegs[t]) > 3)
        so_ = float(T.max_slope(sorted(oseg.items()))) if len(oseg) > 3 else 1.0
        if t in pinned:
            # library pin and HarfBuzz both land within half a step of the true mapped value; HarfBuzz adds its 16.16
            # intermediate precision (a quarter step x slope + a quarter step) when an avar map is applied
            steps.append(1 if not has_map else 2 + int(math.ceil(so_ / 4)))
        elif has_map:
            si_ = float(T.max_slope(sorted(isegs.get(t, {}).items()))) if isegs.get(t) else 1.0
            # instance map: knots 0.5 + 0.5*slope', HarfBuzz 0.25*slope' + 0.25, final rounding 0.5; limit triple 1;
            # original side 0.5 + 0.25*slope + 0.25
            steps.append(4 + int(math.ceil(0.75 * si_ + 0.25 * so_)))
        else:
            steps.append(2)
    if info["avar2"]:
        steps = [8] * len(axes) if avar2_partial else _avar2_steps(O, axes, pinned)

    locs = sample_locations(rnd, remaining, 3 if len(remaining) <= 3 else 2)
    ng = O.n
    gids = list(range(ng)) if ng <= 60 else sorted(rnd.sample(range(ng), 60))
    order = info["order"]
    texts = _texts(rnd, ng) if ({"GSUB", "GPOS"} & O.tags) and "cmap" in O.tags else []
    is_cff = "glyf" not in O.tags
    per_tuple = 1.0 if optimize else 0.5
    cff_snap, hvar_snap, mvar_snap, gdef_snap = _find_ivs("instantiateCFF2"), _find_ivs("instantiateHVAR"), _find_ivs("instantiateMVAR"), _find_ivs("instantiateOTL")
    vvar_snap = _find_ivs("instantiateVVAR")
    iaxes = [t for t, lo, df, hi in I.axes]
    stage = Counter()
    worst = {"outline": 0.0, "advance": 0, "metric": 0, "shape": 0, "budget_max": 0.0}
    judged_var = 0
    judged_glyphs_nondefault = 0
    Ohm = None
    featvar_cause = None
    incons0, vincons0 = {}, {}
    zero_at_default = set()
    overflow = _cff2_stack_overflow(inst, info["order"], ctx, witness) if "CFF2" in inst else set()
    for li, x in enumerate(locs):
        uo = dict(pinned)
        uo.update(x)
        nO = O.at_user(uo)
        nI = I.at_user(x)
        iloc = {t: F(v) for t, v in zip(iaxes, nI)}
        sens, so = E.sensitivity(O, nO, steps, gids, texts, None, metrics=True, rel=is_cff)
        si = I.snapshot(gids, texts, None, metrics=True)
        at_default = li == 0

        def own(gname):
            regs = gsnap.get(gname) or []
            s = float(T.abs_scalar_sum(iloc, [r for r, _ in regs]))
            return 0.5 + 0.02 + s * per_tuple + knot_budget(regs)

        def deep(gname, depth=0):
            b = own(gname)
            if depth < 8:
                for cg, nrm in info["composites"].get(gname, ()):
                    b += nrm * deep(cg, depth + 1)
            return b

        cff_op, cff_kb = ivs_budget(cff_snap, iloc, 0.5)
        adv_incons = set()
        for g in gids:
            ro, ri = so["out"][g], si["out"][g]
            gname = order[g] if g < len(order) else "gid%d" % g
            if gname in overflow:
                pass        # already reported: the charstring is not a valid CFF2 charstring
            elif sens["out"][g] == float("inf"):
                ctx.skip("outline structure of the original changes within the quantisation neighbourhood")
            elif is_cff:
                b_op = 0.5 + 0.02 + cff_op + cff_kb
                d = E.rel_dist(ro, ri)
                ctx.judged()
                if d is not None:
                    tol = b_op + sens["out"][g]
                    stage["cff-operand"] += 1
                    worst["outline"] = max(worst["outline"], d)
                    worst["budget_max"] = max(worst["budget_max"], tol)
                    bad = d > tol + 1e-9
                    why = "largest operand difference %.4f" % d
                else:
                    npt = max(E.npoints(ro), E.npoints(ri), 1)
                    tol = b_op * npt + _abs_sens(O, nO, steps, g, ro)
                    ok, st, why = geom.outlines_match(ro, ri, tol)
                    stage["cff-absolute-stage%d" % st] += 1
                    bad = not ok
                if bad:
                    ctx.violation({"kind": "instance-differs", "what": "outline", "flavour": "CFF2", "full": full},
                                  "glyph %s at %s: instance differs from the original by more than the budget %.3f (%s)" % (gname, x or "(static)", tol, why),
                                  dict(witness, location=x, original_location=uo, hb_norm_original=nO, hb_norm_instance=nI, glyph=gname,
                                       original=ro[:10], instance=ri[:10]))
            else:
                tol = deep(gname) + sens["out"][g]
                # x: HarfBuzz shifts the outline by the (varied) left phantom point, which the instancer rounds
                # into hmtx.lsb (0.5) and into each surviving tuple's phantom delta
                tol_x = tol + (own(gname) - 0.02 if gname in info["phantom_var"] else 0.0)
                ok, st, why = E.match_xy(ro, ri, tol_x, tol)
                ctx.judged()
                stage["glyf-stage%d" % st] += 1
                d = geom.max_point_diff(ro, ri)
                if d is not None:
                    worst["outline"] = max(worst["outline"], d)
                worst["budget_max"] = max(worst["budget_max"], tol)
                if not ok:
                    ctx.violation({"kind": "instance-differs", "what": "outline", "flavour": "glyf", "full": full},
                                  "glyph %s at %s: instance differs from the original by more than the budget %.3f (%s; max point diff %s)" % (gname, x or "(static)", tol, why, d),
                                  dict(witness, location=x, original_location=uo, hb_norm_original=nO, hb_norm_instance=nI, glyph=gname,
                                       original=ro[:10], instance=ri[:10]))
            if len(ro) and (not at_default or full):
                judged_glyphs_nondefault += 1
            # ---- advance
            ao, ai = so["adv"][g], si["adv"][g]
            if ao == -1 or ai == -1:
                continue
            if "HVAR" in O.tags:
                major = info["hvar_map"][gname] if info["hvar_map"] and gname in info["hvar_map"] else 0
                s, kb = ivs_budget(hvar_snap, iloc, 0.5, major)
                tol = 1.5 + s + kb + sens["adv"][g]
                if not is_cff:
                    # hmtx of the instance comes from gvar phantom points: only comparable when HVAR and gvar agree in the original
                    if Ohm is None:
                        Ohm = _without_hvar(info)
                    Ohm.at_norm(nO)
                    inc = abs(Ohm.h.h_advance(g) - ao)
                    if at_default:
                        incons0[g] = inc
                    if inc > 1 or incons0.get(g, 0) > 1:
                        ctx.skip("original's HVAR disagrees with its gvar phantom points (advance not comparable)")
                        adv_incons.add(g)
                        continue
                    # instance(x) = gvar(new default) + HVAR(x) - HVAR(new default): the disagreement of the two tables at
                    # the new default carries over; it is measured on HarfBuzz's integer advances, i.e. up to 1 unit more
                    # than what is seen (two roundings of half a unit)
                    tol += own(gname) - 0.52 + incons0.get(g, 0) + 1.0
            else:
                # no HVAR: HarfBuzz takes the advance from two phantom points of gvar
                tol = 1.0 + (2 * own(gname) if not is_cff else 0.5) + sens["adv"][g]
            if at_default and ao == 0:
                zero_at_default.add(g)
            if g in zero_at_default and abs(ao - ai) > tol + 1e-9:
                # hmtx cannot hold a negative advance: when the original's advance at the new default is <= 0
                # (HarfBuzz clamps at 0) the instancer clamps too and the other locations shift by the clamped amount
                ctx.skip("original advance at the new default is zero or negative (not representable in hmtx)")
                adv_incons.add(g)
                continue
            ctx.judged()
            worst["advance"] = max(worst["advance"], abs(ao - ai))
            if abs(ao - ai) > tol + 1e-9:
                ctx.violation({"kind": "instance-differs", "what": "advance", "flavour": "CFF2" if is_cff else "glyf", "hvar": "HVAR" in O.tags},
                              "glyph %s at %s: advance %d in the original, %d in the instance (budget %.2f)" % (gname, x or "(static)", ao, ai, tol),
                              dict(witness, location=x, original_location=uo, hb_norm_original=nO, hb_norm_instance=nI, glyph=gname))
            # ---- vertical advance (VVAR)
            if "VVAR" in O.tags and g in so["vadv"] and g in si["vadv"]:
                vo_, vi_ = so["vadv"][g], si["vadv"][g]
                s, kb = ivs_budget(vvar_snap, iloc, 0.5)
                tol = 1.5 + s + kb + sens["vadv"][g]
                okc = True
                if not is_cff:
                    if Ohm is None:
                        Ohm = _without_hvar(info)
                    Ohm.at_norm(nO)
                    inc = abs(Ohm.h.v_advance(g) - vo_)
                    if at_default:
                        vincons0[g] = inc
                    if inc > 1 or vincons0.get(g, 0) > 1:
                        ctx.skip("original's VVAR disagrees with its gvar phantom points (vertical advance not comparable)")
                        okc = False
                    tol += own(gname) - 0.52 + vincons0.get(g, 0) + 1.0
                if okc:
                    ctx.judged()
                    ctx.note("vertical-advances-judged")
                    if abs(vo_ - vi_) > tol + 1e-9 and not (at_default and vo_ == 0):
                        ctx.violation({"kind": "instance-differs", "what": "vertical-advance", "flavour": "CFF2" if is_cff else "glyf"},
                                      "glyph %s at %s: vertical advance %d in the original, %d in the instance (budget %.2f)" % (gname, x or "(static)", vo_, vi_, tol),
                                      dict(witness, location=x, original_location=uo, hb_norm_original=nO, hb_norm_instance=nI, glyph=gname))
        # ---- font-wide metrics
        s, kb = ivs_budget(mvar_snap, iloc, 0.5)
        for tag, vo in so["met"].items():
            vi = si["met"].get(tag)
            if vo is None or vi is None:
                continue
            if "MVAR" not in O.tags and vo == vi:
                continue
            if tag in E.TYPO_OR_HHEA and not info["typo_ok"]:
                ctx.skip("hasc/hdsc/hlgp read from hhea by HarfBuzz while MVAR is defined on OS/2 (tables disagree)")
                continue
            tol = 1.5 + s + kb + sens["met"][tag]
            ctx.judged()
            worst["metric"] = max(worst["metric"], abs(vo - vi))
            if abs(vo - vi) > tol + 1e-9:
                ctx.violation({"kind": "instance-differs", "what": "metric", "tag": tag},
                              "metric %s at %s: %d in the original, %d in the instance (budget %.2f)" % (tag, x or "(static)", vo, vi, tol),
                              dict(witness, location=x, original_location=uo, hb_norm_original=nO, hb_norm_instance=nI))
        # ---- shaping
        if texts:
            s, kb = ivs_budget(gdef_snap, iloc, 0.5)
            b_val = 1.5 + s + kb
            hs, hkb = ivs_budget(hvar_snap, iloc, 0.5)
            b_adv = 1.5 + hs + hkb + (max((own(order[g]) for g in gids), default=0.0) if not is_cff else 0.0)
            for ti, t in enumerate(texts):
                a, b = so["shape"][ti], si["shape"][ti]
                if adv_incons and any(z[0] in adv_incons for z in a):
                    ctx.skip("text uses a glyph whose HVAR advance disagrees with gvar in the original")
                    continue
                same, d = E.shape_dist(a, b)
                if not same:
                    if tuple(z[0] for z in b) in sens["shape_alt"][ti]:
                        ctx.skip("location within the quantisation neighbourhood of a feature-variation boundary")
                        continue
                    ctx.judged()
                    if featvar_cause is None:
                        featvar_cause = _featvar_diagnosis(info, O, axes, pinned, eff, ib) or "unexplained"
                    cause = featvar_cause
                    if cause == "unexplained" and _on_degenerate_side(eff, _cur["norm"] or {}, x):
                        cause = "featvars-side-narrower-than-one-f2dot14-step"
                    ctx.violation({"kind": "instance-differs", "what": "shaping-glyphs", "cause": cause},
                                  "text gids %s at %s: original shapes to %s, instance to %s" % ([c - corpus.PUA for c in t][:12], x or "(static)", [z[0] for z in a][:16], [z[0] for z in b][:16]),
                                  dict(witness, location=x, original_location=uo, hb_norm_original=nO, hb_norm_instance=nI))
                    continue
                if sens["shape"][ti] == float("inf"):
                    ctx.skip("location within the quantisation neighbourhood of a feature-variation boundary")
                    continue
                tol = b_adv + 6 * b_val + sens["shape"][ti]
                ctx.judged()
                worst["shape"] = max(worst["shape"], d)
                if d > tol + 1e-9:
                    ctx.violation({"kind": "instance-differs", "what": "positioning"},
                                  "text gids %s at %s: positions differ by %d (budget %.2f)" % ([c - corpus.PUA for c in t][:12], x or "(static)", d, tol),
                                  dict(witness, location=x, original_location=uo, hb_norm_original=nO, hb_norm_instance=nI,
                                       original=a[:8], instance=b[:8]))
    if full and not info["avar2"] and not info["varc"] and ({"gvar", "CFF2"} & O.tags):
        _mutator_route(case, ctx, info, O, pinned, steps, gids, texts, is_cff, order, witness)
    for kk, n in stage.items():
        ctx.note("outline-compare:" + kk, n)
    ctx.note("locations", len(locs))
    restricted = any(kd not in ("keep", "range-full") for kd in kinds.values())
    if restricted and judged_glyphs_nondefault:
        key = "%s|%s|o%d" % (case.get("path") or "gen-%s-%s" % (case.get("kind"), case.get("i")),
                             ",".join("%s" % kinds.get(t, "keep") for t, _, _, _ in axes), optimize)
        ctx.nontrivial(key)
    ctx.sample = {"case": {k: v for k, v in case.items() if k != "seed"}, "limits": witness["limits"], "limit_kinds": kinds,
                  "normalized_limits_seen_by_monitor": {k: list(v[:3]) for k, v in (_cur["norm"] or {}).items()},
                  "optimize": optimize, "updateFontNames": upd_names, "downgradeCFF2": downgrade, "locations": locs[:8],
                  "K_steps": steps, "handlers": dict(_cur["handlers"]), "rebaseTent_calls": _cur["rebase"],
                  "instanced_varstores": [{"table": s["table"], "regions_per_major": [len(m) for m in s["majors"]]} for s in _cur["ivs"]],
                  "worst_observed": worst, "instance_tables": sorted(I.tags), "harness_repairs_of_original": info["repairs"],
                  "twin_rule_axes": info["twin_axes"], "shadowed_pair_subtables": info["shadowed_pair_subtables"],
                  "axis_sparse_glyph_axes": info["axis_sparse_tags"], "private_vsindex_encoding": info["private_vsindex"]}
    if info["private_vsindex"]:
        ctx.note("gen:cff2-private-vsindex-" + info["private_vsindex"])
    if info["twin_axes"]:
        ctx.note("gen:twin-feature-variation-rules")
    if info["shadowed_pair_subtables"]:
        ctx.note("gen:shadowed-format1-pair-subtable")


def _on_degenerate_side(eff, norm, x):
    """Positive identification of the 'side narrower than one F2Dot14 step' mechanism: a restricted axis whose new
    default and new maximum (minimum) differ in user space but whose normalised limits - as recorded by the monitor on
    AxisLimits.normalize - coincide, and the compared location lies on that side of the new default."""
    for t, (a, b, c) in eff.items():
        if t not in norm or t not in x:
            continue
        na, nb, nc = norm[t][:3]
        if b < c and nb == nc and x[t] > b:
            return True
        if a < b and na == nb and x[t] < b:
            return True
    return False


def _mutator_route(case, ctx, info, O, pinned, steps, gids, texts, is_cff, order, witness):
    """Second instancing route: the (deprecated, still shipped) varLib.mutator.instantiateVariableFont produces a
    static font at a user-space location; it must agree with the source font at that location just like the
    instancer's full instance.  One rounding only: glyph 0.5 (+0.5 in x when the left phantom point varies: lsb),
    per CFF2 operand 0.5, advances / metrics / kerning values 0.5 + HarfBuzz's integer rounding on both sides."""
    import warnings
    from fontTools.varLib import mutator

    font = corpus.open_bytes(info["bytes"])
    with warnings.catch_warnings():
        warnings.simplefilter("ignore")
        with ctx.lib("mutator.instantiateVariableFont"):
            inst = mutator.instantiateVariableFont(font, dict(pinned))
    with ctx.lib("save(mutator instance)"):
        mb = corpus.save_bytes(inst)
    M = E.View(mb)
    ctx.note("mutator-route")
    ctx.judged()
    left = [t for t in VAR_TABLES if t in M.tags]
    if left or M.h.face.has_var_data:
        ctx.violation({"kind": "not-static", "route": "mutator", "what": "variation tables left", "tables": left},
                      "varLib.mutator instance still has %s" % left, dict(witness, route="mutator"))
    nO = O.at_user(pinned)
    sens, so = E.sensitivity(O, nO, steps, gids, texts, None, metrics=True, rel=is_cff)
    sm = M.snapshot(gids, texts, None, metrics=True)
    w = dict(witness, route="varLib.mutator", location=pinned, hb_norm_original=nO)
    Ohm = None
    incons = set()

    def deep(gname, depth=0):
        b = 0.52
        if depth < 8:
            for cg, nrm in info["composites"].get(gname, ()):
                b += nrm * deep(cg, depth + 1)
        return b

    for g in gids:
        gname = order[g] if g < len(order) else "gid%d" % g
        ro, ri = so["out"][g], sm["out"][g]
        if sens["out"][g] == float("inf"):
            ctx.skip("outline structure of the original changes within the quantisation neighbourhood")
        elif is_cff:
            d = E.rel_dist(ro, ri)
            ctx.judged()
            if d is not None:
                tol = 0.52 + sens["out"][g]
                bad, why = d > tol + 1e-9, "largest operand difference %.4f" % d
            else:
                tol = 0.52 * max(E.npoints(ro), E.npoints(ri), 1) + _abs_sens(O, nO, steps, g, ro)
                ok, st, why = geom.outlines_match(ro, ri, tol)
                bad = not ok
            if bad:
                ctx.violation({"kind": "instance-differs", "route": "mutator", "what": "outline", "flavour": "CFF2"},
                              "glyph %s: varLib.mutator instance differs from the original by more than %.3f (%s)" % (gname, tol, why),
                              dict(w, glyph=gname, original=ro[:10], instance=ri[:10]))
        else:
            tol = deep(gname) + sens["out"][g]
            tol_x = tol + (0.5 if gname in info["phantom_var"] else 0.0)
            ok, st, why = E.match_xy(ro, ri, tol_x, tol)
            ctx.judged()
            if not ok:
                ctx.violation({"kind": "instance-differs", "route": "mutator", "what": "outline", "flavour": "glyf"},
                              "glyph %s: varLib.mutator instance differs from the original by more than %.3f (%s; max point diff %s)"
                              % (gname, tol, why, geom.max_point_diff(ro, ri)), dict(w, glyph=gname, original=ro[:10], instance=ri[:10]))
        ao, ai = so["adv"][g], sm["adv"][g]
        if ao == -1 or ai == -1:
            continue
        tol = 1.5 + sens["adv"][g]
        if not is_cff and "HVAR" in O.tags:
            if Ohm is None:
                Ohm = _without_hvar(info)
            Ohm.at_norm(nO)
            inc = abs(Ohm.h.h_advance(g) - ao)
            if inc > 1:
                ctx.skip("original's HVAR disagrees with its gvar phantom points (advance not comparable)")
                incons.add(g)
                continue
            tol += inc + 0.5
        elif not is_cff:
            tol += 1.0
        if ao == 0 and ai != 0:
            ctx.skip("original advance at the location is zero or negative (not representable in hmtx)")
            incons.add(g)
            continue
        ctx.judged()
        if abs(ao - ai) > tol + 1e-9:
            ctx.violation({"kind": "instance-differs", "route": "mutator", "what": "advance", "flavour": "CFF2" if is_cff else "glyf"},
                          "glyph %s: advance %d in the original, %d in the varLib.mutator instance (budget %.2f)" % (gname, ao, ai, tol), dict(w, glyph=gname))
    for tag, vo in so["met"].items():
        vi = sm["met"].get(tag)
        if vo is None or vi is None or ("MVAR" not in O.tags and vo == vi):
            continue
        if tag in E.TYPO_OR_HHEA and not info["use_typo_bit"]:
            # MVAR defines hasc/hdsc/hlgp on OS/2 only; HarfBuzz reads hhea unless USE_TYPO_METRICS is set, and
            # varLib.mutator (unlike the instancer) does not mirror the change into hhea
            continue
        tol = 1.5 + sens["met"][tag]
        ctx.judged()
        if abs(vo - vi) > tol + 1e-9:
            ctx.violation({"kind": "instance-differs", "route": "mutator", "what": "metric", "tag": tag},
                          "metric %s: %d in the original, %d in the varLib.mutator instance (budget %.2f)" % (tag, vo, vi, tol), w)
    for ti, t in enumerate(texts):
        a, b = so["shape"][ti], sm["shape"][ti]
        if incons and any(z[0] in incons for z in a):
            continue
        same, d = E.shape_dist(a, b)
        if not same:
            if tuple(z[0] for z in b) in sens["shape_alt"][ti]:
                ctx.skip("location within the quantisation neighbourhood of a feature-variation boundary")
                continue
            ctx.judged()
            ctx.violation({"kind": "instance-differs", "route": "mutator", "what": "shaping-glyphs"},
                          "text gids %s: original shapes to %s, varLib.mutator instance to %s" % ([c - corpus.PUA for c in t][:12], [z[0] for z in a][:16], [z[0] for z in b][:16]), w)
            continue
        if sens["shape"][ti] == float("inf"):
            continue
        tol = 3.0 + 6 * 1.5 + sens["shape"][ti]
        ctx.judged()
        if d > tol + 1e-9:
            ctx.violation({"kind": "instance-differs", "route": "mutator", "what": "positioning"},
                          "text gids %s: positions differ by %d between the original and the varLib.mutator instance (budget %.2f)" % ([c - corpus.PUA for c in t][:12], d, tol),
                          dict(w, original=a[:8], instance=b[:8]))


def _featvar_diagnosis(info, O, axes, pinned, eff, inst_bytes):
    """Label for a glyph-sequence difference (diagnosis only, the verdict is HarfBuzz's).  The label is given only
    when the known mechanism is positively identified in both fonts:
    (1) under the requested limits the original has a FeatureVariations record that becomes always-true (every
        condition is on a pinned axis and met by the pin, or covers the whole new range) next to a record that
        stays conditional (before it: the always-true record must become the final fallback; after it: that record
        is unreachable and no catch-all may follow); and
    (2) the instance's last record of the same table is condition-less and reinstates the original's *default*
        feature lookups (same number of lookups per substituted feature) - i.e. the old-default catch-all shadows
        the always-true record."""
    font = corpus.open_bytes(info["bytes"])
    ifont = corpus.open_bytes(inst_bytes)
    tags = [t for t, lo, df, hi in axes]
    rng = {}
    for t, lo, df, hi in axes:
        a, b, c = eff.get(t, (lo, df, hi))
        rng[t] = (O.at_user({t: a})[tags.index(t)], O.at_user({t: c})[tags.index(t)])
    for tt in ("GSUB", "GPOS"):
        if tt not in font or not getattr(font[tt].table, "FeatureVariations", None):
            continue
        seen_conditional = False
        pattern = always = None
        for rec in font[tt].table.FeatureVariations.FeatureVariationRecord:
            conds = rec.ConditionSet.ConditionTable if rec.ConditionSet else []
            status = "always"
            for c in conds:
                if c.Format != 1:
                    status = "conditional"
                    continue
                na, nc = rng[tags[c.AxisIndex]]
                if c.FilterRangeMinValue > nc or c.FilterRangeMaxValue < na:
                    status = "never"
                    break
                if not (c.FilterRangeMinValue <= na and c.FilterRangeMaxValue >= nc):
                    status = "conditional"
            if status == "conditional":
                seen_conditional = True
                if always is not None:
                    pattern = always        # a record that stays possible *after* the always-true one: unreachable in the
                    break                   # original, but the instancer keeps it and appends the old-default catch-all
            elif status == "always" and always is None:
                if not conds:
                    break                   # a genuinely condition-less record: not this mechanism
                always = rec
                if seen_conditional:
                    pattern = rec
                    break
        if pattern is None:
            continue
        # (2) symptom in the instance
        if tt not in ifont or not getattr(ifont[tt].table, "FeatureVariations", None):
            continue
        irecs = ifont[tt].table.FeatureVariations.FeatureVariationRecord
        if not irecs:
            continue
        last = irecs[-1]
        if last.ConditionSet is not None and last.ConditionSet.ConditionTable:
            continue
        odef = font[tt].table.FeatureList.FeatureRecord
        usub = {sr.FeatureIndex: len(sr.Feature.LookupListIndex) for sr in pattern.FeatureTableSubstitution.SubstitutionRecord}
        subs = last.FeatureTableSubstitution.SubstitutionRecord
        if subs and all(sr.FeatureIndex < len(odef) and len(sr.Feature.LookupListIndex) == len(odef[sr.FeatureIndex].Feature.LookupListIndex)
                        for sr in subs) and any(len(odef[fi].Feature.LookupListIndex) != n for fi, n in usub.items() if fi < len(odef)):
            return "featvars-record-always-true-after-a-conditional-one"
    return None


CFF2_MAX_STACK = 513   # CFF2 spec, appendix B


def _cff2_stack_overflow(inst, order, ctx, witness):
    """Operand-stack depth of every charstring of the instance (token counting on the in-memory programs;
    HarfBuzz corroborates: it stops drawing such a glyph).  -> set of offending glyph names"""
    bad = set()
    try:
        top = inst["CFF2"].cff.topDictIndex[0]
        store = getattr(top, "VarStore", None)
        counts = [vd.VarRegionCount for vd in store.otVarStore.VarData] if store is not None else []
        css = top.CharStrings
    except Exception:
        return bad
    worst = (0, None)
    for g in order:
        if g not in css.keys():
            continue
        cs = css[g]
        cs.decompile()
        vsindex = getattr(cs.private, "vsindex", 0) if getattr(cs, "private", None) is not None else 0
        depth = mx = 0
        last_num = None
        for tok in cs.program:
            if isinstance(tok, (int, float)):
                depth += 1
                last_num = tok
                mx = max(mx, depth)
            elif tok == "blend":
                k = counts[vsindex] if vsindex < len(counts) else 0
                depth -= 1 + int(last_num) * k
            elif tok == "vsindex":
                vsindex = int(last_num)
                depth = 0
            elif isinstance(tok, str):
                depth = 0
        if mx > worst[0]:
            worst = (mx, g)
        if mx > CFF2_MAX_STACK:
            bad.add(g)
    ctx.judged()
    ctx.note("cff2-max-stack-depth-seen<=%d" % (64 * (1 + worst[0] // 64)))
    if bad:
        ctx.violation({"kind": "cff2-stack-overflow", "op": "instantiateCFF2", "what": "charstring operand stack exceeds the CFF2 limit of 513"},
                      "instance charstrings of %s need up to %d operands on the stack (CFF2 limit 513): the blend operators were grouped "
                      "for the original region count and the instanced VarStore has more regions" % (sorted(bad)[:6], worst[0]),
                      dict(witness, glyphs=sorted(bad), max_depth=worst[0], regions_per_vsindex=counts))
    return bad


def _avar2_steps(O, axes, pinned):
    """fully pinned avar2 font: K per axis = observed difference between the library's normalised pins
    (monitor on AxisLimits.normalize) and HarfBuzz's normalised coordinates, at least 1, capped at 8."""
    nO = O.at_user(pinned)
    lib = _cur["norm"] or {}
    steps = []
    for (t, lo, df, hi), n in zip(axes, nO):
        if t in lib:
            e = abs(lib[t][1] - n) * 16384
            steps.append(max(1, min(8, int(math.ceil(e)))))
        else:
            steps.append(1)
    return steps


def _abs_sens(O, nO, steps, g, base_rec):
    """absolute-coordinate movement of one glyph of the original under +-steps (for the CFF fallback)."""
    tot = 0.0
    for ai, k in enumerate(steps):
        worst = 0.0
        for sign in (-1, 1):
            c = list(nO)
            c[ai] = max(-1.0, min(1.0, c[ai] + sign * k / 16384.0))
            O.at_norm(c)
            d = geom.max_point_diff(base_rec, O.h.outline(g))
            worst = max(worst, float("inf") if d is None else d)
        tot += worst
    O.at_norm(nO)
    return tot


def _without_hvar(info):
    """The original without its HVAR/VVAR tables (HarfBuzz then takes advances from gvar phantom points)."""
    if "_nohvar" not in info:
        f = corpus.open_bytes(info["bytes"])
        for t in ("HVAR", "VVAR"):
            if t in f:
                del f[t]
        info["_nohvar"] = E.View(corpus.save_bytes(f))
    return info["_nohvar"]


def _texts(rnd, ng):
    """PUA texts: all glyphs in order, a few shuffles, and pairs (all ordered pairs for tiny fonts)."""
    P = corpus.PUA
    gl = list(range(ng)) if ng <= 80 else rnd.sample(range(ng), 80)
    texts = [[P + g for g in gl]]
    for _ in range(2):
        s = list(gl)
        rnd.shuffle(s)
        texts.append([P + g for g in s])
    pairs = [(a, b) for a in gl for b in gl] if ng <= 12 else [(rnd.choice(gl), rnd.choice(gl)) for _ in range(120)]
    for a, b in pairs:
        texts.append([P + a, P + b])
    return texts


# ---------------------------------------------------------------- thorough: rounding-suppressed monitor
def run_nornd(case, ctx, info, rnd):
    """Same instancing with TupleVariation.roundDeltas wrapped to a no-op (harness-side hook), optimize=False,
    restricted to glyf/gvar (other variation tables removed from the copy), limits on exact F2Dot14 grid
    values of axes without avar; compared through fontTools' own glyph set at normalised locations.
    Error must be <= 0.5 + 1e-6 (the new default's own rounding) regardless of tuple count."""
    from fontTools.varLib import instancer
    from fontTools.ttLib.tables.TupleVariation import TupleVariation

    font = corpus.open_bytes(info["bytes"])
    if "glyf" not in font or "gvar" not in font or info["varc"]:
        ctx.skip("rounding-suppressed monitor needs glyf/gvar")
        return
    for t in ("HVAR", "VVAR", "MVAR", "GDEF", "GPOS", "GSUB", "BASE", "cvar", "STAT", "avar"):
        if t in font:
            del font[t]
    axes = [(a.axisTag, a.minValue, a.defaultValue, a.maxValue) for a in font["fvar"].axes]

    def grid_user(lo, df, hi, n):
        return df + n * ((hi - df) if n >= 0 else (df - lo))

    lim, normlim = {}, {}
    for t, lo, df, hi in axes:
        if hi == lo:
            continue
        r = rnd.random()
        lo_n = -1.0 if df > lo else 0.0
        hi_n = 1.0 if hi > df else 0.0
        pick = lambda a, b: rnd.randrange(int(a * 16384), int(b * 16384) + 1) / 16384.0
        if r < 0.3:
            n = pick(lo_n, hi_n)
            lim[t] = grid_user(lo, df, hi, n)
            normlim[t] = (n, n, n)
        elif r < 0.85:
            a = pick(lo_n, hi_n)
            c = pick(a, hi_n)
            b = pick(a, c)
            lim[t] = (grid_user(lo, df, hi, a), grid_user(lo, df, hi, b), grid_user(lo, df, hi, c))
            normlim[t] = (a, b, c)
    if not lim:
        t, lo, df, hi = axes[0]
        lim[t] = df
        normlim[t] = (0.0, 0.0, 0.0)
    saved = TupleVariation.roundDeltas
    TupleVariation.roundDeltas = lambda self: None
    try:
        with ctx.lib("instantiateVariableFont(no rounding)", expected=(NotImplementedError,)):
            inst = instancer.instantiateVariableFont(font, dict(lim), optimize=False)
    finally:
        TupleVariation.roundDeltas = saved
    ofont = corpus.open_bytes(info["bytes"])
    if "gvar" in inst:
        # in memory the instancer removes glyphs without variations from gvar; a reloaded font reports [] for them
        for g in info["order"]:
            if g not in inst["gvar"].variations:
                inst["gvar"].variations[g] = []
    lib = _cur["norm"] or {}
    ctx.note("nornd-instancings")
    # correspondence new-normalised -> old-normalised from the exact grid triple (own arithmetic)
    rem = [(t, lo, df, hi) for t, lo, df, hi in axes if not (t in normlim and normlim[t][0] == normlim[t][2])]
    order = info["order"]
    worst = worst_raw = 0.0
    for trial in range(5):
        newn, oldn = {}, {}
        for t, lo, df, hi in axes:
            if t in normlim:
                a, b, c = normlim[t]
                if a == c:
                    oldn[t] = b
                    continue
                # new default = b; new space is linear in *user* space on each side of the new default
                ua, ub, uc = (grid_user(lo, df, hi, v) for v in (a, b, c))
                n = rnd.choice([0.0, 1.0, -1.0, rnd.uniform(-1, 1)]) if trial else 0.0
                if n < 0 and ua == ub:
                    n = 0.0
                if n > 0 and uc == ub:
                    n = 0.0
                u = ub + n * ((uc - ub) if n >= 0 else (ub - ua))
                newn[t] = n
                oldn[t] = float(T.normalize_value(F(u), (F(lo), F(df), F(hi))))
            else:
                n = rnd.uniform(-1 if df > lo else 0, 1 if hi > df else 0) if trial else 0.0
                newn[t] = n
                oldn[t] = n
        # (1) sharp: raw gvar arithmetic with the harness' own tent evaluator on both tuple lists - no rounding
        # anywhere (the in-memory instance keeps float coordinates), so the two must agree to float precision
        for g in order:
            ro, ri = _raw_eval(ofont, g, oldn), _raw_eval(inst, g, newn)
            ctx.judged()
            if ro is None or ri is None or len(ro) != len(ri):
                ctx.violation({"kind": "nornd", "what": "point count differs"}, "glyph %s: point count differs" % g, {"case": case["id"]})
                continue
            d = max((max(abs(a[0] - b[0]), abs(a[1] - b[1])) for a, b in zip(ro, ri)), default=0.0)
            worst_raw = max(worst_raw, d)
            if d > 1e-6:
                ctx.violation({"kind": "nornd", "what": "exact tuple arithmetic differs with rounding suppressed"},
                              "glyph %s: %.3g units between the original's tuples at %s and the unrounded instance's tuples at %s (float precision expected)" % (g, d, oldn, newn),
                              {"case": case["id"], "font": case.get("path"), "limits": {k: (list(v) if isinstance(v, tuple) else v) for k, v in lim.items()},
                               "normalized_limits": normlim, "old_norm": oldn, "new_norm": newn})
        gs_o = ofont.getGlyphSet(location=oldn, normalized=True)
        gs_i = inst.getGlyphSet(location=newn, normalized=True) if "fvar" in inst else inst.getGlyphSet()
        for g in order:
            po, pi = E_rec(gs_o, g), E_rec(gs_i, g)
            d = _xy_diff(po, pi)
            ctx.judged()
            if d is None:
                ctx.violation({"kind": "nornd", "what": "structure differs"}, "glyph %s: structure differs without rounding" % g,
                              {"case": case["id"], "limits": {k: v for k, v in lim.items()}})
                continue
            dx, dy = d
            worst = max(worst, dy)
            depth = 1 + _depth(info["composites"], g)
            by = 0.5 * depth * (1 + 1e-6) + 1e-4
            # x: fontTools' glyph set shifts the outline by an lsb that it rounds to an integer at the location, in both fonts
            shifty = g in info["phantom_var"] or g in info["lsb_not_xmin"] or any(c in info["phantom_var"] or c in info["lsb_not_xmin"] for c, _ in info["composites"].get(g, ()))
            bx = by + (1.0 if shifty else 0.0)
            if dy > by or dx > bx:
                ctx.violation({"kind": "nornd", "what": "error above the default-rounding bound with delta rounding suppressed"},
                              "glyph %s: dx %.5f dy %.5f units between original at %s and unrounded instance at %s (bounds x %.2f y %.2f)" % (g, dx, dy, oldn, newn, bx, by),
                              {"case": case["id"], "font": case.get("path"), "limits": {k: (list(v) if isinstance(v, tuple) else v) for k, v in lim.items()},
                               "normalized_limits": normlim, "old_norm": oldn, "new_norm": newn})
    _nornd_stores(case, ctx, info, lim, normlim, axes, rnd)
    if rem or True:
        ctx.nontrivial("nornd|%s|%s" % (case.get("path") or case.get("i"), sorted((t, len(set(v))) for t, v in normlim.items())))
    ctx.sample = {"case": {k: v for k, v in case.items() if k != "seed"}, "limits": {k: (list(v) if isinstance(v, tuple) else v) for k, v in lim.items()},
                  "worst_unrounded_error_glyphset_y": worst, "worst_raw_tuple_error": worst_raw, "rebaseTent_calls": _cur["rebase"]}


def _nornd_stores(case, ctx, info, lim, normlim, axes, rnd):
    """ItemVariationStores (HVAR / MVAR / GDEF) through the real instantiateItemVariationStore with delta rounding
    suppressed: original row at the corresponding old location == default delta + instanced row at the new
    location, evaluated with the harness' tent evaluator, to float precision."""
    from copy import deepcopy
    from fontTools.varLib import instancer
    from fontTools.ttLib.tables.TupleVariation import TupleVariation

    font = corpus.open_bytes(info["bytes"])
    if "avar" in font:
        del font["avar"]
    stores = []
    for tag in ("HVAR", "MVAR", "GDEF", "VVAR"):
        if tag in font and getattr(font[tag].table, "VarStore", None):
            stores.append((tag, font[tag].table.VarStore))
    if not stores:
        return
    fvar_axes = font["fvar"].axes
    with hooks.quiet():
        nl = instancer.AxisLimits(dict(lim)).limitAxesAndPopulateDefaults(font).normalize(font)
    pinned = {t for t, v in nl.items() if v[0] == v[2]}
    order_new = [a.axisTag for a in fvar_axes if a.axisTag not in pinned]
    for tag, store in stores:
        old_regs = [r.get_support(fvar_axes) for r in store.VarRegionList.Region]
        old_rows = [(vd.VarRegionIndex[:], [list(r) for r in vd.Item]) for vd in store.VarData]
        # the adapter is the arithmetic core of instantiateItemVariationStore (asItemVarStore cannot hold floats)
        adapter = instancer._TupleVarStoreAdapter.fromItemVarStore(deepcopy(store), fvar_axes)
        saved = TupleVariation.roundDeltas
        TupleVariation.roundDeltas = lambda self: None
        try:
            with ctx.lib("_TupleVarStoreAdapter.instantiate(no rounding)"):
                default_arr = adapter.instantiate(nl)
        finally:
            TupleVariation.roundDeltas = saved
        new_data = [[({k: tuple(v) for k, v in tv.axes.items()}, list(tv.coordinates)) for tv in tvs] for tvs in adapter.tupleVarData]
        worst = 0.0
        for trial in range(4):
            newn, oldn = {}, {}
            for t, lo, df, hi in axes:
                if t in normlim:
                    a, b, c = normlim[t]
                    if a == c:
                        oldn[t] = b
                        continue
                    gu = lambda n: df + n * ((hi - df) if n >= 0 else (df - lo))
                    ua, ub, uc = gu(a), gu(b), gu(c)
                    n = rnd.choice([0.0, 1.0, -1.0, rnd.uniform(-1, 1)]) if trial else 0.0
                    if (n < 0 and ua == ub) or (n > 0 and uc == ub):
                        n = 0.0
                    u = ub + n * ((uc - ub) if n >= 0 else (ub - ua))
                    newn[t] = n
                    oldn[t] = float(T.normalize_value(F(u), (F(lo), F(df), F(hi))))
                else:
                    n = rnd.uniform(-1 if df > lo else 0, 1 if hi > df else 0) if trial else 0.0
                    newn[t] = oldn[t] = n
            fo = {k: F(v) for k, v in oldn.items()}
            fn = {k: F(v) for k, v in newn.items()}
            so = [float(T.region_scalar(fo, r)) for r in old_regs]
            for major, (ridx, rows) in enumerate(old_rows):
                sn = [float(T.region_scalar(fn, r)) for r, _ in new_data[major]]
                for minor, row in enumerate(rows):
                    vo = sum(so[ri] * d for ri, d in zip(ridx, row))
                    vi = default_arr[major][minor] + sum(sc * col[minor] for sc, (_, col) in zip(sn, new_data[major]))
                    ctx.judged()
                    worst = max(worst, abs(vo - vi))
                    if abs(vo - vi) > 1e-6 * (1 + abs(vo)):
                        ctx.violation({"kind": "nornd", "what": "ItemVariationStore arithmetic differs with rounding suppressed", "table": tag},
                                      "%s row (%d,%d): original %.6f at %s, instance %.6f at %s" % (tag, major, minor, vo, oldn, vi, newn),
                                      {"case": case["id"], "font": case.get("path"), "limits": {k: (list(v) if isinstance(v, tuple) else v) for k, v in lim.items()}})
                        return
        ctx.note("nornd-store:%s" % tag)


def _raw_eval(font, gname, loc):
    """default coordinates + sum scalar*delta over the glyph's tuples, phantom points excluded; scalars from the
    harness' Fraction tent evaluator; IUP-inferred deltas of the *original* are expanded with the font's own
    default outline (symmetric: the instancer expands them the same way before rebasing)."""
    from fontTools.misc.roundTools import noRound
    from fontTools.varLib.iup import iup_delta

    glyf = font["glyf"]
    r = glyf._getCoordinatesAndControls(gname, font["hmtx"].metrics, getattr(font.get("vmtx"), "metrics", None), round=noRound)
    if r is None:
        return None
    coords, ctrl = r
    pts = [(float(x), float(y)) for x, y in coords]
    acc = [[x, y] for x, y in pts]
    floc = {k: F(v) for k, v in loc.items()}
    for tv in (font["gvar"].variations.get(gname) or []) if "gvar" in font else []:
        sc = float(T.region_scalar(floc, {k: tuple(v) for k, v in tv.axes.items()}))
        if not sc:
            continue
        deltas = tv.coordinates
        if None in deltas:
            deltas = iup_delta(deltas, coords, ctrl.endPts)
        for i, dl in enumerate(deltas):
            acc[i][0] += sc * dl[0]
            acc[i][1] += sc * dl[1]
    return [tuple(p) for p in acc[:-4]]


def _xy_diff(recA, recB):
    if len(recA) != len(recB):
        return None
    wx = wy = 0.0
    for (o1, a1), (o2, a2) in zip(recA, recB):
        if o1 != o2 or len(a1) != len(a2):
            return None
        for p, q in zip(a1, a2):
            if (p is None) != (q is None):
                return None
            if p is not None:
                wx = max(wx, abs(p[0] - q[0]))
                wy = max(wy, abs(p[1] - q[1]))
    return wx, wy


def _depth(comps, g, d=0):
    if g not in comps or d > 8:
        return 0
    return 1 + max((_depth(comps, c, d + 1) for c, _ in comps[g]), default=0)


def E_rec(glyphset, name):
    """Decomposed pen record of a glyph drawn through fontTools' glyph set."""
    from vmon.oracle.hbft import RecPen
    from fontTools.pens.basePen import DecomposingPen

    pen = RecPen()

    class D(DecomposingPen):
        skipMissingComponents = False

        def __init__(self, gs, out):
            super().__init__(gs)
            self.out = out

        def moveTo(self, p):
            self.out.moveTo(p)

        def lineTo(self, p):
            self.out.lineTo(p)

        def curveTo(self, *p):
            self.out.curveTo(*p)

        def qCurveTo(self, *p):
            self.out.qCurveTo(*p)

        def closePath(self):
            self.out.closePath()

        def endPath(self):
            self.out.endPath()

    glyphset[name].draw(D(glyphset, pen))
    return pen.value


def coverage_extra(results):
    """largest differences actually observed (all inside their budgets when the run held)"""
    mx = {}
    for r in results:
        w = (r.get("sample") or {}).get("worst_observed") or {}
        for k, v in w.items():
            if isinstance(v, (int, float)) and v == v and v != float("inf"):
                mx[k] = max(mx.get(k, 0), v)
    return {"observed_maxima": mx}
