"""C18 — merging fonts preserves each input's characters.

Workload: ordered lists of 2-4 fonts with equal units-per-em and one outline flavour, written to
the worker's scratch directory (the API takes paths): (a) corpus fonts re-cut with the subsetter
into disjoint or overlapping private-use character ranges, (a') lists of different corpus fonts with
equal units-per-em and flavour, each with its own private-use block, (b) fontBuilder/feaLib generated
TrueType and CFF families (vmon/gen/c18_fonts.py) with disjoint or overlapping alphabets,
identical and different duplicate glyphs, clashing glyph names, optional GSUB/GPOS/GDEF under
different language systems (including a script of the font's own with a REQUIRED feature at FeatureList
index 0 or later), glyph names that already carry the merger's own ".N" suffixes, CFF inputs subroutinised
by hand (global only / local only / both), TrueType composites and composites of composites in every position,
format-4-only fonts mixed with fonts that also need a format-12 subtable while sharing BMP characters, left-over
lookups that no feature references, per-language rules (locl/kern, include or exclude_dflt) in scripts shared between
inputs shaped with every language the input declares, useExtension lookups including contextual ones with nested
lookups, mark filtering sets in GSUB and GPOS (base-mark-base texts); list orders permuted; chained merges merge(merge(A,B),C,...).  The real `Merger.merge` runs under monitors
on merge, computeMegaGlyphOrder, computeMegaCmap, every table `merge` method, layoutPre/PostMerge,
mergeScriptRecords, mapLookups/mapFeatures.

Oracles (saved bytes, HarfBuzz + struct-level readers): for every character c of the union,
first = min{i : c in cmap_i}; nominal(c) of the merged file has the outline and advance of nominal(c)
in input `first`; glyph names unique; .notdef is the first font's; for every input, texts over
the characters only that input has shape as with the input alone; reference sweep of the result.
"""
import io
import os
import random
from collections import Counter

from vmon import corpus, hooks
from vmon.oracle import c07_hb as H
from vmon.oracle import c07_refsweep as RS
from vmon.oracle import geom

PROPERTY = "C18"
LEVEL = "exploration"
RULE = ("a case is one ordered list of 2-4 compatible fonts (generated family, re-cut corpus font or list of different corpus fonts, one permutation); "
        "non-trivial when at least two inputs contribute characters whose merged glyph was compared with the input's and, "
        "for layout-bearing inputs, at least one compared text shows layout activity; distinct = (source font or family "
        "signature: flavour, overlap mode, name clash, number of fonts, feature tags per font, order)")
ASSUMPTIONS = [
    "HarfBuzz 12.1 is the trusted shaper/rasteriser; outline tolerance 0.02 units, advances and shaping results exact",
    "merger preconditions hold by construction: equal unitsPerEm, one outline flavour per call, no CID-keyed CFF, required features only in language systems of a script no other input defines (the merger asserts otherwise), no variable/colour/AAT/kern tables (the merger drops tables it cannot merge)",
    "an input's character set is what the merger documents it reads: its format-12 Unicode subtable if present, else its format-4 Unicode subtable",
    "shaping is compared only over characters exclusive to one input whose glyphs take no part in the merger's duplicate handling, with a script (and language) that the input itself defines in each of its layout tables, and only if the input alone and the merged font agree on having GSUB, GPOS and GDEF glyph classes at all (HarfBuzz falls back to mark positioning / class synthesis otherwise)",
    "glyph identity across files: merged name expected = the name computeMegaGlyphOrder issued for (input, glyph id); cross-checked by outline and advance through HarfBuzz",
    "private-use code points only, so no Unicode-driven shaping",
]
REQUIRED_MONITORS = ["Merger.merge", "computeMegaGlyphOrder", "computeMegaCmap", "merge:cmap", "merge:glyf", "merge:CFF",
                     "merge:GSUB", "merge:DefaultTable", "layoutPreMerge", "layoutPostMerge", "mergeScriptRecords",
                     "LookupList.mapLookups", "ScriptList.mapFeatures"]
CASE_TIMEOUT = 240
MANIFEST = {
    "text": "Exploration: ordered lists of 2-4 compatible fonts (corpus fonts re-cut by the subsetter into disjoint/overlapping private-use ranges; lists of different corpus fonts with equal upem and flavour, each given its own private-use block; fontBuilder+feaLib generated TrueType and CFF families with identical/different duplicate glyphs, clashing glyph names (also names already of the form X.N), hand-subroutinised CFF (global/local/both), required features in a script of the font's own, with and without GSUB/GPOS/GDEF under different language systems; orders permuted; chained merges of a merge result with further fonts) are merged through the real Merger under monitors on merge, computeMegaGlyphOrder, computeMegaCmap, every table merge method and the layout pre/post merge passes. The saved result is judged by HarfBuzz: every character's merged glyph has the outline and advance it had in the first input that maps it, .notdef is the first font's, texts over characters exclusive to one input shape as with that input alone; glyph names are unique (in memory, and in the saved post/CFF names read by FreeType); a struct-level reference sweep checks ids and indices. Tests cannot settle this because merge_test checks the policies on small dictionaries and one integration case and never renders the result.",
    "note": "Trusted base: HarfBuzz 12.1, FreeType glyph names, vmon/oracle/c07_refsweep.py. Preconditions are the merger's documented limits (equal upem, one flavour, format 4/12 Unicode cmaps, no CID CFF); overlapping characters are only compared glyph-wise (first input wins), shaping only over exclusive characters with a script the input defines itself.",
    "technique": "monitors on the real merger functions; differential rendering/shaping through HarfBuzz against each input; generated and re-cut input families",
    "design_ref": "DESIGN.md §4 C18",
}

_MERGEABLE = {"head", "hhea", "maxp", "OS/2", "post", "name", "cmap", "hmtx", "glyf", "loca", "CFF ", "GSUB", "GPOS", "GDEF",
              "cvt ", "fpgm", "prep", "gasp", "DSIG", "GlyphOrder"}

_mon = {"merge": None, "order": None, "cmap": None, "notes": Counter()}


def _note(k, n=1):
    _mon["notes"][k] += n


def _rep(monitor, invariant, what, **w):
    hooks.report({"kind": "monitor", "monitor": monitor, "invariant": invariant}, "%s: %s" % (monitor, what), w)


# ================================================================== monitors
def setup():
    import inspect

    import fontTools.merge as MM
    import fontTools.merge.cmap as MC
    import fontTools.merge.layout as ML
    import fontTools.merge.tables  # noqa: F401
    from fontTools import ttLib
    from fontTools.ttLib.tables import otTables
    from fontTools.ttLib.tables.DefaultTable import DefaultTable

    def pre_merge(a, kw):
        _mon["order"] = _mon["cmap"] = None
        return {"files": list(a[1])}

    def post_merge(st, a, kw, res, exc):
        if exc is not None or st is None:
            _mon["merge"] = None
            return
        order = list(res.getGlyphOrder())
        _mon["merge"] = {"files": st["files"], "order": order, "tables": sorted(res.keys())}
        if len(set(order)) != len(order):
            dup = [n for n, c in Counter(order).items() if c > 1]
            _rep("Merger.merge", "unique-names", "merged glyph order has duplicate names %s" % dup[:5])

    hooks.attach(MM.Merger, "merge", pre=pre_merge, post=post_merge, name="Merger.merge")

    def pre_order(a, kw):
        return [list(o) for o in a[1]]

    def post_order(st, a, kw, res, exc):
        if exc is not None or st is None:
            return
        merger, orders = a[0], a[1]
        new = [list(o) for o in orders]
        _mon["order"] = {"before": st, "after": new, "mega": list(merger.glyphOrder)}
        flat = [n for o in new for n in o]
        if len(set(flat)) != len(flat):
            _rep("computeMegaGlyphOrder", "unique-names", "renamed glyph orders still share names")
        if flat != list(merger.glyphOrder):
            _rep("computeMegaGlyphOrder", "concatenation", "mega glyph order is not the concatenation of the renamed orders")
        ren = sum(1 for b, n in zip(st, new) for x, y in zip(b, n) if x != y)
        if ren:
            _note("glyphs renamed", ren)
            _note("merges with renames")
        for b, n in zip(st, new):
            for x, y in zip(b, n):
                if x != y and not y.startswith(x + "."):
                    _rep("computeMegaGlyphOrder", "rename-form", "glyph %r renamed to %r" % (x, y))
                    return

    hooks.attach(MC, "computeMegaGlyphOrder", pre=pre_order, post=post_order, name="computeMegaGlyphOrder")

    def post_cmap(st, a, kw, res, exc):
        if exc is not None:
            return
        merger = a[0]
        dups = getattr(merger, "duplicateGlyphsPerFont", None)
        _mon["cmap"] = {"cmap": dict(merger.cmap), "dups": [dict(d) for d in dups] if dups is not None else None}
        if dups:
            n = sum(len(d) for d in dups)
            if n:
                _note("duplicate code points resolved by locl", n)
                _note("merges with duplicate code points")

    hooks.attach(MC, "computeMegaCmap", post=post_cmap, name="computeMegaCmap")
    hooks.attach(MC, "_glyphsAreSame", name="_glyphsAreSame")
    hooks.attach(MC, "renameCFFCharStrings", name="renameCFFCharStrings")
    hooks.attach(ML, "layoutPreMerge", name="layoutPreMerge")
    hooks.attach(ML, "layoutPostMerge", name="layoutPostMerge")
    # functions referenced from mergeMap dictionaries: rebind the dictionary entries as well
    for fname, cls, key in (("mergeScriptRecords", otTables.ScriptList, "ScriptRecord"),):
        hooks.attach(ML, fname, name=fname)
        cls.mergeMap[key] = getattr(ML, fname)
    for fname in ("mergeScripts", "mergeLangSyses", "mergeFeatureLists", "mergeFeatures", "mergeLookupLists"):
        hooks.attach(ML, fname, name=fname)
    hooks.attach(otTables.LookupList, "mapLookups", name="LookupList.mapLookups")
    hooks.attach(otTables.LookupList, "mapMarkFilteringSets", name="LookupList.mapMarkFilteringSets")
    hooks.attach(otTables.FeatureList, "mapLookups", name="FeatureList.mapLookups")
    hooks.attach(otTables.ScriptList, "mapFeatures", name="ScriptList.mapFeatures")
    for cname in ("ContextSubst", "ChainContextSubst", "ContextPos", "ChainContextPos", "ExtensionSubst", "ExtensionPos"):
        hooks.attach(getattr(otTables, cname), "mapLookups", name="mapLookups:" + cname)

    def post_default(st, a, kw, res, exc):
        if exc is None:
            _note("table merged " + str(getattr(a[0], "tableTag", "?")) + (" (dropped)" if res is NotImplemented else ""))

    hooks.attach(DefaultTable, "merge", post=post_default, name="merge:DefaultTable")
    for tag in ("OS/2", "glyf", "CFF ", "cmap", "GSUB"):
        cls = ttLib.getTableClass(tag)
        if "merge" in cls.__dict__:
            hooks.attach(cls, "merge", name="merge:" + tag.strip())
    hooks.attach(MM.Merger, "mergeObjects", name="Merger.mergeObjects")


# ================================================================== cases
def _eligible(rec):
    t = set(rec["tables"])
    if not (rec.get("complete") and rec.get("head")) or rec.get("flavor") or rec.get("ext") in ("woff", "woff2", "dfont"):
        return False
    if rec["variable"] or not {"cmap", "hmtx", "maxp", "hhea", "OS/2", "name", "post"} <= t:
        return False
    if not (t & {"glyf", "CFF "}) or "CFF2" in t or rec["size"] > 100000:
        return False
    if t - _MERGEABLE:
        return False
    return rec["numGlyphs"] >= 6


def cases(tier, seed):
    T = tier == "thorough"
    out = []
    rnd = random.Random("c18-cases/%s" % seed)
    n_gen = 1400 if T else 240
    for k in range(n_gen):
        out.append({"id": "gen:%d" % k, "kind": "gen", "k": k, "seed": seed, "tier": tier})
    recs = corpus.fonts(pred=_eligible)
    for rec in recs:
        reps = 5 if T else 1
        for b in range(reps):
            out.append({"id": "cut:%s%s|b%d" % (rec["path"], "#%s" % rec["member"] if rec.get("member") is not None else "", b), "kind": "cut", "path": rec["path"], "member": rec.get("member"),
                        "batch": b, "seed": seed, "tier": tier})
    # lists of *different* corpus fonts with equal unitsPerEm and flavour
    groups = {}
    for rec in recs:
        groups.setdefault((rec["upem"], "glyf" if "glyf" in rec["tables"] else "CFF"), []).append(rec)
    n_mix = 900 if T else 120
    keys = sorted(k for k, v in groups.items() if len(v) >= 2)
    for k in range(n_mix):
        g = groups[keys[rnd.randrange(len(keys))]] if rnd.random() < 0.35 else groups[max(keys, key=lambda kk: len(groups[kk]))]
        if rnd.random() < 0.6:
            sigs = {}
            for r in g:
                sigs.setdefault(tuple(sorted(set(r["layout"]))), []).append(r)
            cands = [v for v in sigs.values() if len(v) >= 2]
            if cands:
                g = cands[rnd.randrange(len(cands))]
        lst = rnd.sample(g, min(len(g), rnd.choice([2, 2, 3, 4])))
        out.append({"id": "mix:%d" % k, "kind": "mix", "fonts": [[r["path"], r.get("member")] for r in lst], "seed": seed, "tier": tier})
    return out


# ================================================================== inputs
def _mix_inputs(case, rnd, ctx):
    """Different corpus fonts; each gets its own private-use block U+F0000 + 0x2000*i + gid (existing Unicode
    mappings are kept, so real code points may overlap between inputs)."""
    from fontTools.ttLib.tables._c_m_a_p import CmapSubtable

    outs = []
    keep_real = rnd.random() < 0.3
    for i, (path, member) in enumerate(case["fonts"]):
        f = corpus.open_bytes(corpus.font_bytes(path, member))
        order = f.getGlyphOrder()
        best = {}
        for t in f["cmap"].tables:
            if t.isUnicode() and t.format in (4, 12):
                for c, g in t.cmap.items():
                    best.setdefault(c, g)
        st = CmapSubtable.newSubtable(12)
        st.platformID, st.platEncID, st.language = 3, 10, 0
        st.cmap = dict(best) if keep_real else {}
        for gid, g in enumerate(order[:0x2000]):
            st.cmap[H.PUA + 0x2000 * i + gid] = g
        f["cmap"].tables = [st]
        S0 = None
        data = corpus.save_bytes(f)
        f.close()
        S0 = RS.sweep(data)
        n = S0.numGlyphs
        for where, gids in S0.refs.items():
            if any(g >= n for g in gids):
                ctx.skip("source font names glyph ids beyond numGlyphs (%s)" % where.split(".")[0])
                return None
        outs.append(data)
    desc = {"sources": [p for p, _m in case["fonts"]], "real_code_points_kept": keep_real}
    return outs, desc, "mix|" + "|".join(sorted(p for p, _m in case["fonts"]))

def _cut_inputs(case, rnd, ctx):
    """Re-cut one corpus font into 2-4 parts over private-use code points with the subsetter."""
    from fontTools import subset as SS
    from fontTools.ttLib import TTFont

    data0 = corpus.font_bytes(case["path"], case["member"])
    f = corpus.open_bytes(data0)
    corpus.add_pua(f)
    data = corpus.save_bytes(f)
    n = len(f.getGlyphOrder())
    f.close()
    S0 = RS.sweep(data)
    for where, gids in S0.refs.items():
        if where.split(".")[0] in ("GSUB", "GPOS") and any(g >= n for g in gids):
            ctx.skip("source font's layout tables name glyph ids beyond numGlyphs")
            return None
    gids = list(range(1, n))
    k = rnd.choice([2, 2, 3, 4]) if n >= 12 else 2
    mode = rnd.choice(["disjoint", "disjoint", "overlap"])
    how = rnd.choice(["ranges", "random"])
    if how == "random":
        rnd.shuffle(gids)
    size = max(1, min(len(gids) // k, rnd.choice([40, 40, 12, 25])))
    parts = [gids[i * size:(i + 1) * size] for i in range(k)]
    parts = [p for p in parts if p]
    if len(parts) < 2:
        ctx.skip("too few glyphs to cut")
        return None
    if mode == "overlap":
        for i in range(1, len(parts)):
            parts[i] = parts[i] + rnd.sample(parts[i - 1], min(len(parts[i - 1]), rnd.randint(1, 3)))
    outs = []
    for p in parts:
        g = TTFont(io.BytesIO(data), recalcTimestamp=False)
        o = SS.Options()
        o.layout_features = ["*"]
        o.glyph_names = True
        o.notdef_outline = True
        o.name_IDs = ["*"]
        o.hinting = rnd.random() < 0.7
        s = SS.Subsetter(o)
        s.populate(unicodes=[H.PUA + x for x in p])
        s.subset(g)
        outs.append(corpus.save_bytes(g))
    order = list(range(len(outs)))
    rnd.shuffle(order)
    outs = [outs[i] for i in order]
    sig = "cut|%s|%s|%d" % (case["path"], mode, len(outs))
    return outs, {"source": case["path"], "mode": mode, "parts": [len(parts[i]) for i in order], "how": how}, sig


def _gen_inputs(case, rnd, ctx):
    from vmon.gen import c18_fonts as G

    fam = G.family(rnd)
    outs = [G.build(sp) for sp in fam["fonts"]]
    order = list(range(len(outs)))
    rnd.shuffle(order)
    outs = [outs[i] for i in order]
    specs = [fam["fonts"][i] for i in order]
    desc = {"flavour": "ttf" if fam["ttf"] else "cff", "upem": fam["upem"], "overlap": fam["overlap"], "clash": fam["clash"],
            "order": order, "fonts": [{"glyphs": [(g["name"], ("U+%X" % g["cp"]) if g["cp"] else None) for g in sp["glyphs"]],
                                       "fea": sp["fea"], "cff_subrs": sp.get("subr"), "required": sp.get("required")} for sp in specs]}
    sig = "gen|%s|%s|%s|%s" % (desc["flavour"], fam["overlap"], fam["clash"],
                               ";".join((",".join(sp["tags"]) or "-") + ("/" + sp["subr"] if sp.get("subr") else "") for sp in specs))
    return outs, desc, sig


def merge_view_cmap(data):
    """The character set the merger documents it reads from a font: the format-12 Unicode subtable if there is
    one, else the format-4 Unicode subtable (struct-level). -> {cp: gid} or None if subtables of the chosen
    format disagree."""
    T = RS.directory(data)
    r = RS.R(T["cmap"], "cmap")
    n = r.u16(2)
    f4, f12 = [], []
    for i in range(n):
        pid, eid = r.u16s(4 + 8 * i, 2)
        off = r.u32(8 + 8 * i)
        fmt = r.u16(off)
        if fmt == 12 and (pid, eid) in ((3, 10), (0, 4), (0, 6)):
            f12.append(RS._cmap_subtable(r, off)[1])
        elif fmt == 4 and (pid, eid) in ((3, 1), (0, 3), (0, 4), (0, 6)):
            f4.append(RS._cmap_subtable(r, off)[1])
    chosen = f12 or f4
    if not chosen:
        return {}
    if any(m != chosen[0] for m in chosen[1:]):
        return None
    return chosen[0]


# ================================================================== the case
def run_case(case, ctx):
    _mon["notes"] = Counter()
    try:
        _run(case, ctx)
    finally:
        for k, v in _mon["notes"].items():
            ctx.note(k, v)


def _run(case, ctx):
    from fontTools.merge import Merger

    rnd = random.Random("%s/%s" % (case["id"], case["seed"]))
    quick = case["tier"] != "thorough"
    with ctx.lib("prepare-inputs"):
        got = {"gen": _gen_inputs, "cut": _cut_inputs, "mix": _mix_inputs}[case["kind"]](case, rnd, ctx)
    if got is None:
        return
    inputs, desc, sig = got
    chain = len(inputs) >= 3 and case["kind"] in ("gen", "cut") and rnd.random() < 0.4
    if not chain:
        _judge(case, ctx, rnd, quick, inputs, desc, sig, "")
        return
    # chained merge: merge(merge(A, B), C, ...) -- the intermediate result carries the merger's own "X.N" names
    ctx.note("chained merges")
    desc1 = dict(desc, stage="first merge of a chain (inputs 0,1)")
    mbytes = _judge(case, ctx, rnd, quick, inputs[:2], desc1, sig + "|chain1", "a")
    if mbytes is None:
        return
    desc2 = dict(desc, stage="second merge of a chain: [merge(inputs 0,1)] + inputs 2..")
    _judge(case, ctx, rnd, quick, [mbytes] + inputs[2:], desc2, sig + "|chain2", "b")


def _judge(case, ctx, rnd, quick, inputs, desc, sig, stage):
    """Merge `inputs` (font bytes, in order) through the real Merger and judge the saved result. -> merged bytes"""
    from fontTools.merge import Merger

    scratch = os.path.join(os.environ["VMON_SCRATCH"], "c18")
    os.makedirs(scratch, exist_ok=True)
    hs, sweeps, cmaps, flav = [], [], [], []
    paths = []
    for i, data in enumerate(inputs):
        T = RS.directory(data)
        flav.append("glyf" if "glyf" in T else "CFF")
        p = os.path.join(scratch, "in%s%d.%s" % (stage, i, "ttf" if "glyf" in T else "otf"))
        with open(p, "wb") as fh:
            fh.write(data)
        paths.append(p)
        hs.append(H.HB(data))
        sweeps.append(RS.sweep(data))
        cmaps.append(merge_view_cmap(data))
    if len({h.upem for h in hs}) != 1 or len(set(flav)) != 1:
        ctx.skip("precondition: equal unitsPerEm and one outline flavour")
        return
    if any(c is None for c in cmaps):
        ctx.skip("precondition: an input's Unicode cmap subtables disagree")
        return
    desc["glyph_counts"] = [h.glyph_count for h in hs]

    def bad(mech, what, **w):
        w["inputs"] = desc
        ctx.violation(mech, what, w)

    _mon["merge"] = None
    with ctx.lib("merge", expected=(NotImplementedError,)):
        merged = Merger().merge(paths)
    with ctx.lib("save-merged"):
        mbytes = corpus.save_bytes(merged)
    m = _mon["merge"]
    mo = _mon["order"]
    if m is None or mo is None:
        ctx.inconclusive("merge monitors did not record the run")
        return
    morder = m["order"]
    renamed = mo["after"]
    ctx.note("merges")
    ctx.note("merge of %d fonts" % len(inputs))
    ctx.note("flavour " + flav[0])
    try:
        hm = H.HB(mbytes)
    except Exception as e:  # pragma: no cover
        bad({"kind": "unreadable", "by": "harfbuzz"}, "HarfBuzz cannot open the merged font: %r" % e)
        return
    Sm = RS.sweep(mbytes)
    ctx.judged()
    if hm.glyph_count != len(morder) or Sm.numGlyphs != len(morder):
        bad({"kind": "glyph-count"}, "saved merge has %s glyphs (maxp %s), in-memory order %d" % (hm.glyph_count, Sm.numGlyphs, len(morder)))
        return
    mindex = {}
    for i, g in enumerate(morder):
        mindex.setdefault(g, i)

    # ---------------- glyph names unique
    ctx.judged()
    if len(set(morder)) != len(morder):
        dup = sorted(n for n, c in Counter(morder).items() if c > 1)
        bad({"kind": "names", "where": "in-memory"}, "duplicate glyph names in the merged font: %s" % dup[:6])
    from fontTools.ttLib import TTFont
    try:
        reread = list(TTFont(io.BytesIO(mbytes)).getGlyphOrder())
    except Exception as e:
        bad({"kind": "unreadable", "by": "fontTools"}, "merged font cannot be re-read: %r" % e)
        return
    if len(set(reread)) != len(reread) or len(reread) != len(morder):
        bad({"kind": "names", "where": "re-read"}, "re-reading the merged file gives %d names, %d distinct (merged order has %d)" % (len(reread), len(set(reread)), len(morder)))
    stored = _stored_names(mbytes, len(morder))
    if stored is not None:
        ctx.judged()
        ctx.note("stored glyph names checked")
        if len(set(stored)) != len(stored):
            dup = sorted(n for n, c in Counter(stored).items() if c > 1)
            bad({"kind": "names", "where": "saved", "flavour": flav[0]}, "duplicate glyph names stored in the merged file: %s" % dup[:6])
        elif stored != morder:
            diff = [(i, a, b) for i, (a, b) in enumerate(zip(stored, morder)) if a != b][:4]
            bad({"kind": "names", "where": "saved-vs-memory", "flavour": flav[0]}, "stored glyph names differ from the merged glyph order: %s" % diff)

    # ---------------- .notdef is the first font's
    ctx.judged()
    d = H.glyph_diff(hs[0], 0, hm, 0)
    if d:
        bad({"kind": "notdef", "field": d[0], "flavour": flav[0]}, "glyph 0 of the merged font differs from glyph 0 of the first input: %s %s" % d)

    # ---------------- every character: glyph of the first input that maps it
    union = {}
    for i, cm in enumerate(cmaps):
        for c, g in cm.items():
            union.setdefault(c, (i, g))
    chars = sorted(union)
    capn = 250 if quick else 1200
    sample = chars if len(chars) <= capn else sorted(rnd.sample(chars, capn))
    contributing = set()
    overlapping = sum(1 for c in chars if sum(1 for cm in cmaps if c in cm) > 1)
    if overlapping:
        ctx.note("characters mapped by several inputs", overlapping)
    for c in sample:
        i, g = union[c]
        ctx.judged()
        gm = hm.nominal(c)
        shared = sum(1 for cm in cmaps if c in cm) > 1
        if not gm:
            bad({"kind": "char", "field": "missing", "shared": shared, "flavour": flav[0]}, "U+%04X of input %d is not mapped in the merged font" % (c, i), cp=c)
            continue
        if gm >= len(morder):
            bad({"kind": "char", "field": "glyph-id-out-of-range", "shared": shared, "flavour": flav[0]}, "U+%04X maps to glyph id %d of %d" % (c, gm, len(morder)), cp=c)
            continue
        contributing.add(i)
        want_name = renamed[i][g] if g < len(renamed[i]) else None
        if morder[gm] != want_name:
            # the name is only a cross-check; the rendering decides
            dd = H.glyph_diff(hs[i], g, hm, gm)
            if dd:
                bad({"kind": "char", "field": dd[0], "shared": shared, "first_is": "earlier" if i == 0 else "later", "flavour": flav[0]},
                    "U+%04X: merged glyph %s differs from input %d glyph (%s): %s %s" % (c, morder[gm], i, want_name, dd[0], dd[1]), cp=c)
            else:
                ctx.note("character maps to an identical glyph under another name")
            continue
        dd = H.glyph_diff(hs[i], g, hm, gm)
        if dd:
            bad({"kind": "char", "field": dd[0], "shared": shared, "first_is": "earlier" if i == 0 else "later", "flavour": flav[0]},
                "U+%04X: merged glyph %s differs from input %d: %s %s" % (c, morder[gm], i, dd[0], dd[1]), cp=c)

    # ---------------- reference sweep of the result
    ctx.judged()
    in_bad = set()
    for S in sweeps:
        in_bad.update(p[0] for p in S.problems)
        for where, gids in S.refs.items():
            if any(g >= S.numGlyphs for g in gids):
                in_bad.add(where.split(".")[0])
    for where, gids in sorted(Sm.refs.items()):
        tag = where.split(".")[0]
        if tag in in_bad:
            continue
        oor = sorted(g for g in gids if g >= Sm.numGlyphs)
        if oor:
            bad({"kind": "reference", "table": tag, "where": where, "problem": "out-of-range"}, "%s names glyph ids %s, numGlyphs %d" % (where, oor[:8], Sm.numGlyphs))
    for tag, pk, detail in Sm.problems:
        if tag in in_bad:
            continue
        bad({"kind": "structure", "table": tag, "problem": pk}, "%s: %s" % (tag, detail))

    # ---------------- shaping per input over its exclusive characters
    layout_active = 0
    for i in range(len(inputs)):
        excl = sorted(c for c in cmaps[i] if sum(1 for cm in cmaps if c in cm) == 1 and H.safe_cp(c))
        if not excl:
            continue
        # glyphs of this input that also carry a code point shared with another input take part in the merger's
        # documented duplicate handling (locl fix-up): texts that touch them are outside the claim
        unified = {g for c, g in cmaps[i].items() if sum(1 for cm in cmaps if c in cm) > 1}
        excl = [c for c in excl if cmaps[i][c] not in unified]
        if not excl:
            continue
        layout_active += _shape_input(ctx, rnd, i, excl, hs[i], hm, sweeps[i], renamed[i], morder, bad, quick, flav[0], unified)
    if len(contributing) >= 2:
        ctx.nontrivial(sig)
    if layout_active:
        ctx.note("merges with layout-active texts")
    if ctx.sample is None:
        ctx.sample = {"case": case["id"], "inputs": {k: v for k, v in desc.items() if k != "fonts"}, "merged_glyphs": len(morder),
                      "characters_compared": len(sample), "shared_characters": overlapping, "layout_active_texts": layout_active,
                      "tables": m["tables"]}
    return mbytes


def _stored_names(data, n):
    from vmon.oracle.hbft import FT
    try:
        ft = FT(data)
        if not ft.face.has_glyph_names:
            return None
        return [ft.glyph_name(g) for g in range(n)]
    except Exception:
        return None


def _shape_input(ctx, rnd, i, excl, hi, hm, Si, ren, morder, bad, quick, flavour, unified=()):
    # a layout table without any script record cannot apply anything: same as absent
    tabs = [t for t in ("GSUB", "GPOS") if t in Si.tables and Si.scripts.get(t)]
    cand = None
    for t in tabs:
        sc = set(Si.scripts.get(t, {}))
        cand = sc if cand is None else cand & sc
    if cand is None:
        cand = {"DFLT"}
    if not cand:
        ctx.skip("guard: input has no script common to its GSUB and GPOS")
        return 0
    ta = (bool(hi.face.has_layout_substitution), bool(hi.face.has_layout_positioning), bool(hi.face.has_layout_glyph_classes))
    tb = (bool(hm.face.has_layout_substitution), bool(hm.face.has_layout_positioning), bool(hm.face.has_layout_glyph_classes))
    if ta != tb:
        # HarfBuzz falls back (mark positioning without GPOS, class synthesis without GDEF classes) depending on
        # which tables exist at all: DESIGN §3.5, not judged
        ctx.skip("guard: (GSUB, GPOS, GDEF classes) presence differs between the input alone and the merged font")
        return 0
    tags = sorted(set(Si.features.get("GSUB", [])) | set(Si.features.get("GPOS", [])))
    configs = []
    # language systems of this input that carry a REQUIRED feature are shaped first
    req = sorted({(sc, lg) for t in tabs for sc, lg, _fi in Si.required.get(t, []) if sc in cand})
    for sc, lg in req[:2]:
        if all(lg in Si.scripts.get(t, {}).get(sc, []) for t in tabs):
            configs.append((sc, lg, {t: 1 for t in tags if rnd.random() < 0.5}))
            ctx.note("shaping configs with a required feature")
    # every language system the input itself declares (in each of its layout tables)
    own = []
    for sc in sorted(cand):
        ls = [set(Si.scripts.get(t, {}).get(sc, [])) for t in tabs]
        for lg in sorted(set.intersection(*ls) - {"dflt"}) if ls else []:
            own.append((sc, lg))
    if len(own) > (3 if quick else 8):
        own = rnd.sample(own, 3 if quick else 8)
    for sc, lg in own:
        if (sc, lg) not in [(c0, c1) for c0, c1, _f in configs]:
            configs.append((sc, lg, {t: rnd.choice([1, 1, 2]) for t in tags if rnd.random() < 0.6}))
            ctx.note("shaping configs with a declared language")
    for _ in range(2 if quick else 3):
        script = rnd.choice(sorted(cand))
        lang = "dflt"
        lsets = [set(Si.scripts.get(t, {}).get(script, [])) for t in tabs]
        common = set.intersection(*lsets) - {"dflt"} if lsets else set()
        if common and rnd.random() < 0.4:
            lang = rnd.choice(sorted(common))
        elif lsets and not all("dflt" in l for l in lsets):
            continue  # no default language system in one table: the fallback differs once scripts are merged
        f = {t: rnd.choice([1, 1, 2]) for t in tags if rnd.random() < 0.6}
        configs.append((script, lang, f))
    n = len(excl)
    budget = 400 if quick else 1500
    texts = [[c] for c in excl]
    if n + n * n <= budget:
        texts += [[a, b] for a in excl for b in excl]
    else:
        texts += [[rnd.choice(excl), rnd.choice(excl)] for _ in range(budget - n)]
    for _ in range(30 if quick else 100):
        texts.append([rnd.choice(excl) for _k in range(rnd.randint(3, 6))])
    # base, mark, base: lookups that skip or keep marks (filtering sets, attachment classes, IgnoreMarks)
    marks = [c for c in excl if hi.face.get_layout_glyph_class(hi.nominal(c)) == 3]
    if marks:
        nm = [c for c in excl if c not in marks]
        trip = [[a, m, b] for m in marks[:3] for a in nm for b in nm]
        if len(trip) > (150 if quick else 600):
            trip = rnd.sample(trip, 150 if quick else 600)
        texts += trip
        ctx.note("base-mark-base texts", len(trip))
    active = 0
    for script, lang, f in configs:
        reported = False
        for t in texts:
            ra = H.shape(hi, t, f, script, lang)
            if unified and any(x[0] in unified for x in ra):
                ctx.skip("guard: text produces a glyph that was unified with another input's")
                continue
            rb = H.shape(hm, t, f, script, lang)
            ctx.judged()
            if len(ra) != len(t) or any(x[0] != hi.nominal(c) or x[2] != hi.h_advance(x[0]) or x[4] or x[5] for x, c in zip(ra, t)):
                active += 1
            if reported:
                continue
            na = [(ren[x[0]] if x[0] < len(ren) else "gid%d" % x[0],) + x[1:] for x in ra]
            nb = [(morder[x[0]] if x[0] < len(morder) else "gid%d" % x[0],) + x[1:] for x in rb]
            if na != nb and unified and H.shape_trace(hi, t, f, script, lang) & set(unified):
                # an intermediate glyph of this text is one the merger unified with another input's (documented
                # duplicate handling through 'locl'): outside the claim
                ctx.skip("guard: text passes through a glyph that was unified with another input's")
                continue
            if na != nb:
                reported = True
                if [x[0] for x in na] != [x[0] for x in nb]:
                    diff = "glyphs"
                elif [x[2:4] for x in na] != [x[2:4] for x in nb]:
                    diff = "advances"
                elif [x[4:6] for x in na] != [x[4:6] for x in nb]:
                    diff = "offsets"
                else:
                    diff = "clusters"
                bad({"kind": "shaping", "diff": diff, "flavour": flavour},
                    "text %s of input %d shapes differently after merging: alone %s, merged %s" % (["U+%04X" % c for c in t], i, na, nb),
                    text=["U+%04X" % c for c in t], input=i, script=script, lang=lang, features=f, alone=na, merged=nb)
    ctx.note("texts shaped", len(texts) * len(configs))
    ctx.note("layout-active texts", active)
    return active
