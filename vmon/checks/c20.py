"""C20 — damaged or hostile input fails cleanly and is never executed (fault enumeration).

Four clauses, four families of cases:

1. open faults   every truncation length / single-byte header+directory corruption of corpus
                 fonts in all four containers, and a garbage zoo: TTFont(...), reader[tag] for
                 every tag and TTCollection(...) must succeed or raise TTLibError.
2. raw tables    every table payload damaged, font opened with ignoreDecompileErrors=True:
                 every table access succeeds; a table whose decompile failed is a DefaultTable
                 holding exactly the damaged bytes and those bytes are what the save writes.
3. canaries      attribute values / text nodes / tokens of TTX, .fea, designspace, GLIF, plist
                 and UFO inputs replaced by code-execution and path-traversal payloads, run
                 through the API and the CLI entry points under the audit hook.
4. failed saves  a failure injected on every (code, line) executed by a save before the
                 destination is opened, and in every table's compile in turn, while saving
                 onto an existing file: the file must keep its bytes.
"""
import glob
import io
import os
import random
import shutil
import signal
import sys
import time

from vmon import audit, corpus, env, hooks, probes
from vmon.case import CaseTimeout, lib_frame
from vmon.gen import c20_faults as GF
from vmon.gen import c20_text as GT
from vmon.oracle import c20_sfnt as S

PROPERTY = "C20"
LEVEL = "fault_enumeration"
RULE = ("a case is a block of faults of one kind on one corpus input; a fault is non-trivial/distinct when it was "
        "reached: (1) open faults: the reader rejected the file or at least one table read failed or the damaged "
        "byte lies in the header/directory that was parsed [key: input, container, fault position]; (2) raw tables: "
        "the damaged table's decompile failed and the DefaultTable fallback was taken [key: input, table, damage]; "
        "(3) canaries: the mutated value was parsed by the library (the mutant was accepted, or rejected by a "
        "parser/converter of the library rather than by the XML tokenizer) [key: format, site class, payload]; "
        "(4) failed saves: the injected failure fired and the save raised [key: operation, input, code line/table]")
ASSUMPTIONS = [
    "clause 1 judges TTFont(file) construction, reader[tag] raw fetches and TTCollection(file) only; errors while "
    "decompiling one table's payload belong to clause 2",
    "clause 2 judges only what is promised: access never raises, an undecodable table is a DefaultTable with the "
    "damaged bytes, getTableData returns them, and a save that completes contains them (and hands every other "
    "table's bytes to the file unchanged); a save aborted by the compile of a *decoded* table that depends on the "
    "raw one is not judged; head bytes 8..11 (checkSumAdjustment, rewritten by every writer) are masked",
    "clause 3: parse errors are the expected outcome and are not judged; exec audit events whose code object does "
    "not carry the canary token are the library evaluating its own constant strings (otData aux expressions, "
    "converter type names) and are only counted; writes are allowed under the requested output directory and the "
    "(redirected) temporary directory",
    "clause 4: 'save' means the binary saves TTFont.save, TTCollection.save, subset.save_font, ttx.ttCompile; "
    "failpoints after the destination has been opened (non-atomic write) are out of scope, table-compile failures "
    "are always in scope; streaming saveXML is not a 'save' in this sense; the ttx tool's documented promise not to "
    "overwrite an existing output unless -f is given is checked with the same destination-preservation oracle",
    "resource-exhaustion payloads are bounded by a watchdog; a firing watchdog is inconclusive, never a violation; damaged "
    "table payloads that make a decompiler loop or allocate without bound (e.g. a cmap format 12 group spanning 2**31 code "
    "points) are bounded per variant by a 40 s watchdog and a 2 GiB address-space limit and counted as not judged",
]
REQUIRED_MONITORS = [
    "SFNTReader.__init__", "SFNTReader.__getitem__", "readTTCHeader", "WOFF2Reader.__init__",
    "DirectoryEntry.fromFile", "DirectoryEntry.loadData", "TTFont._readTable", "TTFont.save",
    "TTCollection.save", "SFNTWriter.__setitem__", "safeEval",
]
CASE_TIMEOUT = 400
MANIFEST = {
    "text": "Fault enumeration. (1) every truncation length and every single-byte header/directory corruption of corpus fonts in sfnt, TTC, WOFF and WOFF2 form plus a garbage zoo must be rejected with TTLibError (or open) at TTFont()/reader[tag]/TTCollection(); (2) every table payload damaged six ways with ignoreDecompileErrors=True must come back as raw DefaultTable bytes and be written unchanged; (3) every element/attribute class of the corpus TTX, designspace, GLIF, plist, UFO and .fea inputs is replaced by code-execution and path-traversal canaries and run through API and CLI entry points under sys.addaudithook - no exec of a code object carrying the canary, no process spawn, no write outside the requested output directory; (4) a failure injected at every line executed by a save before the destination is opened, and in every table's compile, must leave an existing destination file byte-identical.",
    "note": "Trusted base: Python's audit hook and sys.monitoring, a spec-written sfnt/TTC/WOFF/WOFF2 directory reader (vmon/oracle/c20_sfnt.py). Clause 1 is judged at container level only; clause 4 excludes failures after the destination was opened (non-atomic write is not promised).",
    "technique": "fault enumeration with exception-type post-conditions on the sfnt readers, audit-hook canaries, sys.monitoring failpoints",
    "design_ref": "DESIGN.md §4 C20",
}
EXHAUSTIVE = {"quick": False, "thorough": False}

TOKEN = GT.TOKEN
_cur = {"exc": None, "stage": None, "gtd_exc": None, "gtd_tag": None, "writer_in": None,
        "fallback": None, "safeeval_token": 0, "fp": None, "dest": None, "boundary": None}


def tname(e):
    t = type(e)
    return t.__name__ if t.__module__ == "builtins" else "%s.%s" % (t.__module__.lstrip("_"), t.__name__)


# ------------------------------------------------------------------ monitors
def setup():
    from fontTools.ttLib import sfnt, woff2, ttFont, ttCollection
    from fontTools.misc import textTools

    def stage(name):
        def post(st, a, kw, res, exc):
            if exc is not None and _cur["exc"] is not exc:
                _cur["exc"] = exc
                _cur["stage"] = name
        return post

    for owner, path, nm in (
        (sfnt, "SFNTReader.__init__", "SFNTReader.__init__"),
        (sfnt, "SFNTReader.__getitem__", "SFNTReader.__getitem__"),
        (sfnt, "readTTCHeader", "readTTCHeader"),
        (woff2, "WOFF2Reader.__init__", "WOFF2Reader.__init__"),
        (woff2, "WOFF2Reader.__getitem__", "WOFF2Reader.__getitem__"),
        (woff2, "WOFF2Reader.reconstructTable", "WOFF2Reader.reconstructTable"),
        (sfnt, "DirectoryEntry.fromFile", "DirectoryEntry.fromFile"),
        (sfnt, "DirectoryEntry.loadData", "DirectoryEntry.loadData"),
        (sfnt, "WOFFDirectoryEntry.decodeData", "WOFFDirectoryEntry.decodeData"),
        (sfnt, "WOFFFlavorData.__init__", "WOFFFlavorData.__init__"),
        (woff2, "WOFF2FlavorData.__init__", "WOFF2FlavorData.__init__"),
    ):
        hooks.attach(owner, path, post=stage(nm), name=nm, bind=False)

    # clause 2: fallback taken? what did the writer receive?
    def post_readTable(st, a, kw, res, exc):
        font, tag = a[0], a[1]
        if not getattr(font, "ignoreDecompileErrors", False):
            return
        if exc is not None:
            if _cur["fallback"] is not None:
                _cur["fallback"].setdefault("_raised", []).append((str(tag), exc))
            return
        if _cur["fallback"] is not None and hasattr(res, "ERROR"):
            _cur["fallback"][str(tag)] = res

    hooks.attach(ttFont.TTFont, "_readTable", post=post_readTable, name="TTFont._readTable")

    def post_getTableData(st, a, kw, res, exc):
        if exc is not None and _cur["gtd_exc"] is not exc:
            _cur["gtd_exc"] = exc
            _cur["gtd_tag"] = str(a[1])

    hooks.attach(ttFont.TTFont, "getTableData", post=post_getTableData, name="TTFont.getTableData")

    def pre_writer_set(a, kw):
        w = _cur["writer_in"]
        if w is not None:
            tag, data = str(a[1]), a[2]
            if tag not in w:
                w[tag] = bytes(data)

    hooks.attach(sfnt.SFNTWriter, "__setitem__", pre=pre_writer_set, name="SFNTWriter.__setitem__")
    hooks.attach(ttFont.TTFont, "save", name="TTFont.save", bind=False)
    hooks.attach(ttCollection.TTCollection, "save", name="TTCollection.save", bind=False)

    # clause 3: the evaluating site that every TTX attribute value goes through
    lit = (int, float, complex, str, bytes, tuple, list, dict, set, frozenset, bool, type(None), type(Ellipsis))

    def post_safeEval(st, a, kw, res, exc):
        src = a[0] if a else None
        if isinstance(src, str) and TOKEN in src:
            _cur["safeeval_token"] += 1
        if exc is None and not isinstance(res, lit):
            hooks.report({"kind": "input-executed", "site": "safeEval", "what": "non-literal result", "type": type(res).__name__},
                         "safeEval(%r) returned a %s, not a literal" % (str(src)[:80], type(res).__name__), None)

    hooks.attach(textTools, "safeEval", post=post_safeEval, name="safeEval", bind=False)

    audit.install()
    sys.addaudithook(_boundary_hook)
    # damaged counts can make a decompiler allocate without bound inside one C call (no signal can interrupt
    # that): cap the worker's address space so that it ends as MemoryError instead of an OOM kill
    try:
        import resource

        soft, hard = resource.getrlimit(resource.RLIMIT_AS)
        lim = 2 << 30
        if hard == resource.RLIM_INFINITY or hard > lim:
            resource.setrlimit(resource.RLIMIT_AS, (lim, hard))
    except Exception:
        pass


def _boundary_hook(event, args):
    # marks the point at which a save opens its destination for writing (clause 4)
    if event != "open" or _cur["dest"] is None:
        return
    try:
        if args[0] == _cur["dest"] and _is_write(args[1], args[2]):
            if _cur["boundary"] is None:
                fp = _cur["fp"]
                _cur["boundary"] = len(fp.points) if fp is not None else -1
    except Exception:
        pass


def _is_write(mode, flags):
    if isinstance(mode, str):
        return any(c in mode for c in "wax+")
    if isinstance(flags, int):
        return bool(flags & (os.O_WRONLY | os.O_RDWR | os.O_CREAT | os.O_TRUNC | os.O_APPEND))
    return False


class _deadline:
    """A shorter watchdog for one library call inside a case.  Uses the worker's repeating interval
    timer (a timeout swallowed by a bare `except:` or raised where exceptions are ignored fires again
    every 10 s) and restores the case-level timer on exit."""

    def __init__(self, secs):
        self.secs = secs
        self.on = signal.getsignal(signal.SIGALRM) not in (signal.SIG_DFL, signal.SIG_IGN, None)

    def __enter__(self):
        if self.on:
            self.t0 = time.monotonic()
            self.rest, self.interval = signal.setitimer(signal.ITIMER_REAL, self.secs, 10)
        return self

    def __exit__(self, *a):
        if self.on:
            if self.rest:
                signal.setitimer(signal.ITIMER_REAL, max(1.0, self.rest - (time.monotonic() - self.t0)), self.interval or 15)
            else:
                signal.setitimer(signal.ITIMER_REAL, 0)
        return False


def _release():
    """Drop every reference the monitors hold to exceptions / tables of the abandoned variant and collect:
    a MemoryError's traceback pins the frame that owns the multi-gigabyte list."""
    import gc

    _cur.update(exc=None, stage=None, gtd_exc=None, gtd_tag=None, fallback=None, writer_in=None)
    gc.collect()


def _over_budget(ctx):
    """Case-level budget (monotonic clock, independent of signals): True once 85 % of the case timeout
    is used up; the caller stops enumerating and the case ends inconclusive."""
    dl = _cur.get("case_deadline")
    if dl is not None and time.monotonic() > dl:
        if not _cur.get("budget_reported"):
            _cur["budget_reported"] = True
            ctx.inconclusive("case budget exhausted: enumeration stopped")
        return True
    return False


# ------------------------------------------------------------------ cases
_OPEN_QUICK = ["ttx/data/TestTTF.ttf", "ttx/data/TestOTF.otf", "ttLib/data/dot-cubic.ttf",
               "ttLib/data/IBMPlexSans-Bold.subset.otf", "ttLib/data/Test-Regular.ttf", "ttLib/data/duplicate_glyph_name.ttf"]
_NATIVE = ["ttx/data/TestTTC.ttc", "ttx/data/TestTTCv2.ttc", "ttx/data/TestWOFF.woff", "ttx/data/TestWOFF2.woff2"]
_OPEN_LARGE = ["ttLib/data/TestVGID-Regular.otf", "ttLib/data/I.ttf", "cffLib/data/TestSparseCFF2VF.ttx", "ttLib/data/varc-6868.ttf",
               "ttLib/tables/data/Amstelvar-avar2.subset.ttf", "ttLib/tables/data/NotoSans-VF-cubic.subset.ttf", "voltLib/data/Nutso.ttf",
               "subset/data/Lobster.subset.ttx", "fontBuilder/data/test_var.ttf.ttx"]
FEA_DIR = "feaLib/data"
DS_BUILD = ["varLib/data/Build.designspace", "varLib/data/BuildAvarSingleAxis.designspace", "varLib/data/TestNoOverwriteSTAT.designspace",
            "varLib/data/SparseMasters.designspace", "varLib/data/FeatureVars.designspace"]


def _exists(rel):
    return os.path.exists(os.path.join(env.TESTS, rel))


def _xml_class_map(fmt):
    """{class: [(rel, size)] smallest first} over the corpus files of one XML format."""
    inv = corpus.inventory()
    if fmt == "ttx":
        rels = [r["path"] for r in inv["fonts"] if r["kind"] == "ttx"] + [r["path"] for r in inv["not_fonts"] if r["path"].endswith(".ttx")]
        depth = 1
    elif fmt == "designspace":
        rels, depth = list(inv["other"]["designspace"]), 1
    elif fmt == "glif":
        rels, depth = list(inv["other"]["glif"]), 0
    else:
        rels, depth = list(inv["other"]["plist"]), 0
    out = {}
    for rel in sorted(set(rels)):
        p = os.path.join(env.TESTS, rel)
        try:
            sz = os.path.getsize(p)
            if sz > 400000 or os.path.isdir(p):
                continue
            with open(p, encoding="utf-8", errors="replace") as f:
                txt = f.read()
        except OSError:
            continue
        for cls in {s[0] for s in GT.xml_sites(txt, depth)}:
            out.setdefault(cls, []).append((sz, rel))
    for cls in out:
        out[cls].sort()
    return out


def cases(tier, seed):
    T = tier == "thorough"
    rnd = random.Random("c20-cases/%s" % seed)
    cs = []

    def add(kind, **kw):
        kw["kind"] = kind
        kw["seed"] = seed
        kw["id"] = "%s:%s" % (kind, ",".join("%s=%s" % (k, v) for k, v in sorted(kw.items())
                                                 if k not in ("kind", "seed", "muts") and not isinstance(v, (list, dict))))
        cs.append(kw)

    # ---- clause 1 --------------------------------------------------------------------------
    small = sorted({r["path"] for r in corpus.fonts("bin", lambda r: r["size"] <= GF.SMALL and r["flavor"] is None
                                                    and r["ext"] in ("ttf", "otf"))})
    open_fonts = small if T else [p for p in _OPEN_QUICK if _exists(p)]
    for rel in open_fonts:
        for fl in ("sfnt", "ttc", "woff", "woff2"):
            for lazy in (None, True):
                add("trunc", font=rel, flavour=fl, lazy=lazy)
            add("corrupt", font=rel, flavour=fl)
            add("corrupt-fields", font=rel, flavour=fl)
    for rel in _NATIVE:
        if _exists(rel):
            for lazy in (None, True):
                add("trunc", font=rel, flavour="native", lazy=lazy)
            add("corrupt", font=rel, flavour="native")
            add("corrupt-fields", font=rel, flavour="native")
    larger = [p for p in _OPEN_LARGE if _exists(p)]
    if not T:
        larger = larger[seed % 3::3][:3]
    for rel in larger:
        for fl in ("sfnt", "ttc", "woff", "woff2"):
            add("trunc", font=rel, flavour=fl, lazy=None if (len(cs) + seed) % 2 else True)
            add("corrupt", font=rel, flavour=fl)
    for part in range(4 if T else 2):
        add("zoo", part=part, parts=4 if T else 2)

    # ---- clause 2 --------------------------------------------------------------------------
    recs = [r for r in corpus.fonts(None, lambda r: r["flavor"] is None and r["ext"] != "ttc")]
    if T:
        chosen = [r for r in recs if r["size"] <= 120000]
    else:
        # greedy cover of table tags by small fonts, then a seeded sample
        pool = sorted((r for r in recs if r["size"] <= 30000), key=lambda r: (r["size"], r["path"]))
        seen, chosen = set(), []
        for r in pool:
            new = set(r["tables"]) - seen
            if new:
                chosen.append(r)
                seen |= new
        rest = [r for r in pool if r not in chosen]
        rnd.shuffle(rest)
        chosen += rest[:10]
    short = list(range(2, 17)) if T else [4, 8, 9, 11, 13]
    for r in chosen:
        if r["size"] > 6000:
            # charstring-heavy fonts take seconds per damaged variant: a few tables per case
            step = (1 if r["size"] > 40000 else 2) if T else (2 if r["size"] > 40000 else 5)
            for i in range(0, len(r["tables"]), step):
                add("payload", font=r["path"], tags=r["tables"][i:i + step], tagkey="+".join(r["tables"][i:i + step]), short=short)
        else:
            add("payload", font=r["path"], tags=None, short=short)

    # the same damage inside a collection whose members share the damaged table (shareTables=True)
    ttc_fonts = ["ttx/data/TestTTF.ttf", "ttx/data/TestOTF.otf", "ttLib/data/TestTTF-Regular.ttx"]
    if T:
        ttc_fonts += [r["path"] for r in chosen if r["size"] <= 8000 and not r["variable"]][:30]
    for rel in dict.fromkeys(ttc_fonts):
        if _exists(rel):
            add("payload-ttc", font=rel, short=short)

    # ---- clause 3 --------------------------------------------------------------------------
    npay = len(GT.payloads("", 0))
    for fmt, per_class in (("ttx", 1), ("designspace", 2), ("glif", 3), ("plist", 4)):
        cmap = _xml_class_map(fmt)
        classes = sorted(cmap)
        plan = []  # (rel, class, payload index, occurrence seed)
        for ci, cls in enumerate(classes):
            files = cmap[cls]
            if T:
                for pi in range(npay):
                    sz, rel = files[(pi // 4) % min(len(files), 3)]
                    plan.append((rel, cls, pi, pi))
            else:
                # every element x attribute class once (per_class times for the small formats), payload rotating
                for j in range(per_class):
                    sz, rel = files[j % min(len(files), 3)]
                    plan.append((rel, cls, (ci * 7 + j * 3 + seed) % npay, seed + j))
        byfile = {}
        for rel, cls, pi, occ in plan:
            byfile.setdefault(rel, []).append([cls, pi, occ])
        for rel in sorted(byfile):
            muts = byfile[rel]
            step = 30
            for i in range(0, len(muts), step):
                add("canary-xml", fmt=fmt, file=rel, chunk=i // step, muts=muts[i:i + step])
    feas = sorted(corpus.inventory()["other"]["fea"])
    if not T:
        rnd.shuffle(feas)
        feas = feas[:24]
    for rel in feas:
        add("canary-fea", file=rel, n=12 if T else 5)
    for rel in DS_BUILD if T else DS_BUILD[:2]:
        if _exists(rel):
            add("canary-dsbuild", file=rel, n=len(GT.payloads("", 0)))
    ufos = sorted(corpus.inventory()["other"]["ufo"])
    if not T:
        ufos = ufos[seed % 4::4][:5]
    for rel in ufos:
        add("canary-ufo", file=rel, n=40 if T else 14)
    for part in range(4 if T else 1):
        add("canary-cli", n=20 if T else 12, part=part)

    # ---- clause 4 --------------------------------------------------------------------------
    fs_fonts = ["ttLib/data/dot-cubic.ttf", "ttx/data/TestTTF.ttf", "ttx/data/TestOTF.otf"]
    if T:
        fs_fonts += ["ttLib/data/varc-ac00-ac01.ttf", "ttLib/tables/data/NotoSans-VF-cubic.subset.ttf", "ttLib/data/I.otf",
                     "cffLib/data/TestSparseCFF2VF.ttx", "subset/data/Lobster.subset.otf"]
    fs_fonts = [p for p in fs_fonts if _exists(p)]
    for rel in fs_fonts:
        ops = ["TTFont.save", "TTFont.save/woff", "TTFont.save/woff2", "subset.save_font", "ttx.ttCompile"]
        if not T:
            ops = ops if rel.endswith("TestTTF.ttf") else ops[:1] + ops[3:4]
        for op in ops:
            parts = (12 if T else 8)
            for part in range(parts):
                add("failsave-lines", font=rel, op=op, part=part, parts=parts, stride=1)
        for op in ("TTFont.save", "TTFont.save/woff2", "TTCollection.save", "subset.save_font"):
            add("failsave-compile", font=rel, op=op)
    # the command-line entry points: a failing job must leave an existing destination alone
    for part in range(2 if T else 1):
        add("failsave-cli", part=part, deep=T)
    return cs


# ------------------------------------------------------------------ dispatcher
def run_case(case, ctx):
    rnd = random.Random("%s/%s" % (case["id"], case["seed"]))
    _cur.update(exc=None, stage=None, gtd_exc=None, gtd_tag=None, writer_in=None, fallback=None, fp=None, dest=None, boundary=None,
                case_deadline=time.monotonic() + 0.85 * float(case.get("timeout", CASE_TIMEOUT)), budget_reported=False)
    fn = globals()["run_" + case["kind"].replace("-", "_")]
    fn(case, ctx, rnd)


# ------------------------------------------------------------------ clause 1
_flav_cache = {}


def _flavours(rel):
    """sfnt / ttc / woff / woff2 bytes of one corpus font, re-flavoured through fontTools."""
    if rel in _flav_cache:
        return _flav_cache[rel]
    from fontTools.ttLib import TTFont, TTCollection

    try:
        base = corpus.font_bytes(rel)
    except Exception as e:
        base = e
        out = {"sfnt": e, "woff": e, "woff2": e, "ttc": e}
        _flav_cache[rel] = out
        return out
    out = {"sfnt": base}
    for fl in ("woff", "woff2"):
        try:
            f = corpus.open_bytes(base)
            f.flavor = fl
            out[fl] = corpus.save_bytes(f)
        except Exception as e:  # not this property's business
            out[fl] = e
    try:
        c = TTCollection()
        c.fonts = [corpus.open_bytes(base), corpus.open_bytes(base)]
        b = io.BytesIO()
        c.save(b)
        out["ttc"] = b.getvalue()
    except Exception as e:
        out["ttc"] = e
    if len(_flav_cache) > 8:
        _flav_cache.clear()
    _flav_cache[rel] = out
    return out


def _container_bytes(case, ctx):
    rel = case["font"]
    if case["flavour"] == "native":
        with open(corpus.abspath(rel), "rb") as f:
            data = f.read()
    else:
        data = _flavours(rel)[case["flavour"]]
        if isinstance(data, Exception):
            ctx.skip("cannot re-flavour: %s" % type(data).__name__)
            return None, None
    container = S.regions(data)["container"]
    return data, container


def _probe_open(ctx, data, lazy, container, fault, where):
    """Open damaged bytes every way the API offers; returns (reached, outcome)."""
    from fontTools.ttLib import TTFont, TTCollection, TTLibError

    modes = ["font"] if container != "ttc" else ["collection", "member0", "member1"]
    reached = False
    outcomes = []
    for mode in modes:
        _cur["exc"] = _cur["stage"] = None
        fonts = None
        try:
            if mode == "collection":
                fonts = TTCollection(io.BytesIO(data), lazy=lazy).fonts
            elif mode == "font":
                fonts = [TTFont(io.BytesIO(data), lazy=lazy)]
            else:
                fonts = [TTFont(io.BytesIO(data), lazy=lazy, fontNumber=int(mode[-1]))]
        except TTLibError:
            ctx.judged()
            reached = True
            outcomes.append("rejected")
        except MemoryError:
            ctx.note("open:MemoryError (not judged)")
        except Exception as e:
            ctx.judged()
            reached = True
            outcomes.append("bad")
            _bad_open(ctx, e, container, "open", mode, fault, where)
        else:
            ctx.judged()
            outcomes.append("opened")
        for fi, f in enumerate(fonts or ()):
            want = _dir_lengths(data, container, fi if mode == "collection" else (int(mode[-1]) if mode.startswith("member") else 0))
            for tag in list(f.reader.keys()):
                _cur["exc"] = _cur["stage"] = None
                try:
                    got = f.reader[tag]
                except TTLibError:
                    reached = True
                    ctx.judged()
                except MemoryError:
                    ctx.note("read:MemoryError (not judged)")
                except Exception as e:
                    reached = True
                    ctx.judged()
                    _bad_open(ctx, e, container, "read-table", mode, fault, where)
                else:
                    ctx.judged()
                    # independent reading of the directory: the table must lie inside the file and the bytes
                    # returned must be the whole table (a font cut short is rejected, not completed)
                    if want is not None and str(tag) in want:
                        off, ln, outlen = want[str(tag)]
                        if ln > 0 and off + ln > len(data):
                            _bad_short(ctx, container, mode, fault, where, str(tag), len(got), ln, beyond=off + ln - len(data))
                        elif outlen is not None and len(got) != outlen:
                            _bad_short(ctx, container, mode, fault, where, str(tag), len(got), outlen)
                        elif outlen is None and container == "woff":
                            # compressed WOFF table: inflate the stored stream independently; what the reader
                            # hands out must be that whole stream (the directory's origLength has to agree with it)
                            full = _inflate(data[off:off + ln])
                            if full is not None and bytes(got) != full:
                                _bad_short(ctx, container, mode, fault, where, str(tag), len(got), len(full))
    _cur["exc"] = _cur["stage"] = None
    return reached, outcomes


_inflate_cache = {}


def _inflate(raw):
    import zlib

    key = bytes(raw)
    if key not in _inflate_cache:
        if len(_inflate_cache) > 256:
            _inflate_cache.clear()
        try:
            d = zlib.decompressobj()
            out = d.decompress(key)
            _inflate_cache[key] = out if (d.eof and not d.unused_data) else None
        except zlib.error:
            _inflate_cache[key] = None
    return _inflate_cache[key]


def _dir_lengths(data, container, index):
    """{tag: (offset, stored length, decoded length or None)} of the (damaged) directory read by the
    spec-written parser; None when it is unreadable or ambiguous (duplicate tags)."""
    try:
        if container == "woff":
            flav, wents = S.woff_directory(data)
            ents = [(tag, off, comp, (orig if comp == orig else None)) for tag, off, comp, orig, cs in wents]
        else:
            if container == "sfnt":
                base = 0
            elif container == "ttc":
                base = S.ttc_offsets(data)[1][index]
            else:
                return None
            ver, sents = S.sfnt_directory(data, base)
            ents = [(tag, off, ln, ln) for tag, cs, off, ln in sents]
    except (S.Bad, IndexError, ValueError, OverflowError, MemoryError):
        return None
    out = {}
    for tag, off, ln, outlen in ents:
        t = tag.decode("latin-1")
        if t in out:
            return None
        out[t] = (off, ln, outlen)
    return out


def _bad_short(ctx, container, mode, fault, where, tag, got, want, beyond=None):
    mech = {"kind": "open-error", "container": container, "type": None, "stage": "read-table", "what": "short-table-returned", "fault": fault}
    key = tuple(sorted(mech.items(), key=repr))
    seen = _cur.setdefault("seen_mech", set())
    if key in seen:
        return
    seen.add(key)
    if beyond:
        what = ("reader[%r] of a damaged %s returned %d bytes although the table ends %d bytes past the end of the file: "
                "a cut-short table is completed silently" % (tag, container, got, beyond))
    else:
        what = ("reader[%r] of a damaged %s returned %d bytes although the directory announces %d: a cut-short table is "
                "accepted silently" % (tag, container, got, want))
    ctx.violation(mech, what, dict(where, api=mode, table=tag))


def _bad_open(ctx, e, container, stage, mode, fault, where):
    import traceback

    fr = lib_frame(e)
    func = _cur["stage"] if _cur["exc"] is e else None
    mech = {"kind": "open-error", "container": container, "type": tname(e), "stage": stage,
            "func": (fr[1] if fr else None), "file": (fr[0] if fr else None), "monitor": func, "fault": fault}
    ctx.note("clause1:%s:%s:%s" % (container, stage, tname(e)))
    # one witness per mechanism and case is enough
    key = tuple(sorted(mech.items()))
    seen = _cur.setdefault("seen_mech", set())
    if key in seen:
        _cur["dups"] = _cur.get("dups", 0) + 1
        return
    seen.add(key)
    ctx.violation(mech, "%s of %s input (%s) raised %s instead of TTLibError: %s"
                  % ("TTFont()/TTCollection()" if stage == "open" else "reader[tag]", container, fault, tname(e), str(e)[:120]),
                  dict(where, api=mode, traceback=traceback.format_exception(type(e), e, e.__traceback__)[-6:]))


def run_trunc(case, ctx, rnd):
    _cur["seen_mech"] = set()
    data, container = _container_bytes(case, ctx)
    if data is None:
        return
    lens = GF.trunc_lengths(data)
    n_reached = 0
    for L in lens:
        if _over_budget(ctx):
            break
        reached, out = _probe_open(ctx, data[:L], case["lazy"], container, "truncation",
                                   {"font": case["font"], "flavour": case["flavour"], "truncate_to": L, "of": len(data), "lazy": case["lazy"]})
        if reached:
            n_reached += 1
            ctx.nontrivial("t:%s:%s:%s:%d" % (case["font"][-14:], case["flavour"], case["lazy"], L))
    ctx.note("clause1:truncations", len(lens))
    ctx.note("clause1:truncations-reached", n_reached)
    ctx.sample = {"kind": "trunc", "font": case["font"], "container": container, "lazy": case["lazy"], "size": len(data),
                  "lengths_tried": len(lens), "fault_reached": n_reached}


def run_corrupt(case, ctx, rnd):
    _cur["seen_mech"] = set()
    data, container = _container_bytes(case, ctx)
    if data is None:
        return
    sites = GF.corrupt_sites(data)
    n = 0
    for pos, val in sites:
        if _over_budget(ctx):
            break
        d = bytearray(data)
        d[pos] = val
        reached, out = _probe_open(ctx, bytes(d), None, container, "corruption",
                                   {"font": case["font"], "flavour": case["flavour"], "offset": pos, "value": val, "was": data[pos]})
        # the byte lies in the header/directory, which every open parses: the fault is always reached
        n += 1
        ctx.nontrivial("c:%s:%s:%d:%d" % (case["font"][-14:], case["flavour"], pos, val))
    ctx.note("clause1:corruptions", n)
    ctx.sample = {"kind": "corrupt", "font": case["font"], "container": container, "header_directory_bytes": len({p for p, v in sites}),
                  "corruptions": n}


def run_corrupt_fields(case, ctx, rnd):
    """Header and directory count / length / offset fields set to boundary values."""
    _cur["seen_mech"] = set()
    data, container = _container_bytes(case, ctx)
    if data is None:
        return
    n = 0
    for off, repl, desc in GF.field_corruptions(data):
        d = bytearray(data)
        d[off:off + len(repl)] = repl
        for lazy in (None, True):
            _probe_open(ctx, bytes(d), lazy, container, "corruption",
                        {"font": case["font"], "flavour": case["flavour"], "field": desc, "lazy": lazy})
        n += 1
        ctx.nontrivial("cf:%s:%s:%s" % (case["font"][-14:], case["flavour"], desc[6:30]))
    ctx.note("clause1:field corruptions", n)
    ctx.sample = {"kind": "corrupt-fields", "font": case["font"], "container": container, "fields_x_values": n}


def run_zoo(case, ctx, rnd):
    from fontTools.ttLib import TTFont, TTCollection, TTLibError

    _cur["seen_mech"] = set()
    zoo = GF.garbage_zoo(random.Random("zoo/%s" % case["seed"]))
    mine = zoo[case["part"]::case["parts"]]
    scratch = os.environ.get("VMON_SCRATCH") or "/tmp"
    for name, blob in mine:
        magic = blob[:4]
        container = {b"wOFF": "woff", b"wOF2": "woff2", b"ttcf": "ttc"}.get(magic, "sfnt")
        where = {"garbage": name, "bytes": blob[:64].hex(), "length": len(blob)}
        for lazy in (None, True):
            _probe_open_garbage(ctx, blob, lazy, container, where)
        # the way the ttx tool opens a file: by path, resource-fork detection on
        path = os.path.join(scratch, "zoo.bin")
        with open(path, "wb") as f:
            f.write(blob)
        _cur["exc"] = _cur["stage"] = None
        try:
            TTFont(path, 0).close()
            ctx.judged()
        except TTLibError:
            ctx.judged()
        except Exception as e:
            ctx.judged()
            _bad_open(ctx, e, container, "open", "path,res_name_or_index=0", "garbage", where)
        os.remove(path)
        ctx.nontrivial("z:" + name)
    ctx.note("clause1:garbage", len(mine))
    ctx.sample = {"kind": "zoo", "blobs": [n for n, b in mine][:12], "count": len(mine)}


def _probe_open_garbage(ctx, blob, lazy, container, where):
    from fontTools.ttLib import TTFont, TTCollection, TTLibError

    for mode in ("font", "member0", "collection"):
        _cur["exc"] = _cur["stage"] = None
        fonts = None
        try:
            if mode == "collection":
                fonts = TTCollection(io.BytesIO(blob), lazy=lazy).fonts
            elif mode == "font":
                fonts = [TTFont(io.BytesIO(blob), lazy=lazy)]
            else:
                fonts = [TTFont(io.BytesIO(blob), lazy=lazy, fontNumber=0)]
            ctx.judged()
        except TTLibError:
            ctx.judged()
        except MemoryError:
            ctx.note("open:MemoryError (not judged)")
        except Exception as e:
            ctx.judged()
            _bad_open(ctx, e, container, "open", mode, "garbage", where)
        for f in fonts or ():
            for tag in list(f.reader.keys()):
                _cur["exc"] = _cur["stage"] = None
                try:
                    f.reader[tag]
                    ctx.judged()
                except TTLibError:
                    ctx.judged()
                except MemoryError:
                    pass
                except Exception as e:
                    ctx.judged()
                    _bad_open(ctx, e, container, "read-table", mode, "garbage", where)


# ------------------------------------------------------------------ clause 2
def _mask_head(tag, b):
    # checkSumAdjustment (bytes 8..11) is rewritten by every writer - when the table is long enough to have it
    return b[:8] + b[12:] if tag == "head" and len(b) >= 12 else b


def run_payload(case, ctx, rnd):
    from fontTools.ttLib import TTFont
    from fontTools.ttLib.tables.DefaultTable import DefaultTable

    rel = case["font"]
    base = corpus.font_bytes(rel)
    ver, tabs = S.sfnt_tables(base)
    tags = case.get("tags") or sorted(tabs)
    lazies = (None, False, True)
    n_fb = n_dec = n_saved = n_abort = 0
    seen = set()

    def bad(mech, what, wit):
        k = tuple(sorted(mech.items()))
        if k in seen:
            return
        seen.add(k)
        ctx.violation(mech, what, wit)

    def variant(tag, dname, dbytes):
        nonlocal n_fb, n_dec, n_saved, n_abort
        t2 = dict(tabs)
        t2[tag] = dbytes
        blob = S.build_sfnt(ver, t2)
        infile = S.sfnt_tables(blob)[1]          # what the container really holds (head adjusted)
        lazy = lazies[(len(dbytes) + len(tag) + ord(tag[0])) % 3] if case["seed"] % 2 else lazies[(len(dbytes) + ord(tag[-1])) % 3]
        wit = {"font": rel, "table": tag, "damage": dname, "lazy": lazy, "damaged_len": len(dbytes), "orig_len": len(tabs[tag])}
        _cur["fallback"] = {}
        try:
            font = TTFont(io.BytesIO(blob), ignoreDecompileErrors=True, lazy=lazy, recalcBBoxes=False, recalcTimestamp=False)
        except Exception as e:
            ctx.judged()
            bad({"kind": "raw-table", "what": "open-raised", "type": tname(e), "table": tag},
                "valid container with damaged '%s' payload: TTFont() raised %s" % (tag, tname(e)), wit)
            return
        ok = True
        for t in list(font.keys()):
            if t == "GlyphOrder":
                continue
            try:
                tb = font[t]
                ctx.judged()
            except (CaseTimeout, MemoryError, RecursionError):
                raise
            except Exception as e:
                ctx.judged()
                ok = False
                fr = lib_frame(e)
                bad({"kind": "raw-table", "what": "access-raised", "type": tname(e), "table": t, "damaged": tag,
                     "func": fr[1] if fr else None},
                    "ignoreDecompileErrors=True but font[%r] raised %s (damaged table: %s, %s)" % (t, tname(e), tag, dname), wit)
        if not ok:
            return
        fb = {t: tb for t, tb in _cur["fallback"].items() if t != "_raised"}
        _cur["fallback"] = None
        for t, tb in fb.items():
            ctx.judged()
            if type(tb) is not DefaultTable or getattr(tb, "data", None) != infile[t]:
                bad({"kind": "raw-table", "what": "fallback-lost-data", "table": t},
                    "undecodable '%s' came back as %s whose data differs from the file's bytes" % (t, type(tb).__name__),
                    dict(wit, got=repr(getattr(tb, "data", None))[:80], want=infile[t][:40].hex()))
                continue
            try:
                got = font.getTableData(t)
            except Exception as e:
                got = e
            if got != infile[t]:
                bad({"kind": "raw-table", "what": "getTableData-differs", "table": t},
                    "getTableData(%r) of the raw fallback table does not return the file's bytes" % t, dict(wit, got=repr(got)[:80]))
        if tag in fb:
            n_fb += 1
            ctx.nontrivial("p:%s:%s:%s" % (rel[-16:], tag, dname))
        else:
            n_dec += 1
        # ---- save: raw tables must be written unchanged, and must not abort the save
        _cur["writer_in"] = {}
        _cur["gtd_exc"] = _cur["gtd_tag"] = None
        out = io.BytesIO()
        try:
            font.save(out)
        except (CaseTimeout, MemoryError, RecursionError):
            raise
        except Exception as e:
            n_abort += 1
            culprit = _cur["gtd_tag"] if _cur["gtd_exc"] is e else None
            if culprit in fb:
                ctx.judged()
                bad({"kind": "raw-table", "what": "save-aborted-by-raw-table", "table": culprit, "type": tname(e)},
                    "save aborted while compiling the raw fallback table %r: %s" % (culprit, tname(e)), wit)
            else:
                ctx.note("clause2:save aborted by a decoded table (not judged)")
            _cur["writer_in"] = None
            return
        win, _cur["writer_in"] = _cur["writer_in"], None
        n_saved += 1
        try:
            over, otabs = S.sfnt_tables(out.getvalue())
        except S.Bad as e:
            ctx.judged()
            bad({"kind": "raw-table", "what": "output-unparsable"}, "saved font is not a parsable sfnt: %s" % e, wit)
            return
        for t in fb:
            ctx.judged()
            if t not in otabs or _mask_head(t, otabs[t]) != _mask_head(t, infile[t]):
                bad({"kind": "raw-table", "what": "resaved-differs", "table": t},
                    "raw fallback table %r is not byte-identical in the saved font" % t,
                    dict(wit, got=otabs.get(t, b"")[:40].hex(), want=infile[t][:40].hex()))
        for t, given in win.items():
            ctx.judged()
            if t in otabs and _mask_head(t, otabs[t]) != _mask_head(t, given):
                if t == "head" and len(given) < 12 and otabs[t][:8] == given[:8]:
                    what = "short-head-overwritten"
                else:
                    what = "other-table-clobbered"
                bad({"kind": "raw-table", "what": what, "damaged": tag, "table": t if t in ("head",) else "*",
                     "raw_head_len_lt_12": bool(tag == "head" and len(dbytes) < 12)},
                    "table %r in the saved font differs from the bytes handed to SFNTWriter while %r was kept raw (%s, %d bytes)"
                    % (t, tag, dname, len(dbytes)),
                    dict(wit, table=t, handed_to_writer=given[:24].hex(), in_file=otabs[t][:24].hex()))
        # ---- reload
        try:
            f2 = TTFont(io.BytesIO(out.getvalue()), ignoreDecompileErrors=True, lazy=lazy)
            for t in fb:
                ctx.judged()
                if _mask_head(t, f2.reader[t]) != _mask_head(t, infile[t]):
                    bad({"kind": "raw-table", "what": "reload-differs", "table": t}, "reloaded raw table %r differs" % t, wit)
        except (CaseTimeout, MemoryError):
            raise
        except Exception as e:
            bad({"kind": "raw-table", "what": "reload-raised", "type": tname(e)}, "reloading the saved font raised %s" % tname(e), wit)

    for tag in tags:
        if tag not in tabs:
            continue
        for dname, dbytes in GF.payload_damages(tabs[tag], rnd, short=case.get("short") or (4, 8, 10, 13)):
            if _over_budget(ctx):
                break
            # damaged counts can send a decompiler into very long loops: bound each variant separately
            try:
                with _deadline(40):
                    variant(tag, dname, dbytes)
            except CaseTimeout:
                _release()
                ctx.note("clause2:variant stopped by the 40 s watchdog (resource exhaustion, not judged)")
                ctx.skip("damaged payload variant exceeded the watchdog")
            except MemoryError:
                # e.g. a cmap format 12 group whose damaged end code spans 2**31 code points
                _release()
                ctx.note("clause2:variant stopped by the address-space limit (resource exhaustion, not judged)")
                ctx.skip("damaged payload variant exceeded the memory limit")
            finally:
                _cur["exc"] = _cur["gtd_exc"] = None      # an exception keeps its frames (and their giant lists) alive
    ctx.note("clause2:target table fell back to raw bytes", n_fb)
    ctx.note("clause2:damaged payload still decoded", n_dec)
    ctx.note("clause2:saves completed", n_saved)
    ctx.note("clause2:saves aborted", n_abort)
    ctx.sample = {"kind": "payload", "font": rel, "tables": tags if len(tags) < 12 else len(tags), "fallback_taken": n_fb,
                  "still_decoded": n_dec, "saves_completed": n_saved, "saves_aborted_by_decoded_tables": n_abort}


def run_payload_ttc(case, ctx, rnd):
    """Clause 2 inside a collection: both members carry the same damaged table (stored once, shared);
    opened with TTCollection(shareTables=True, ignoreDecompileErrors=True)."""
    from fontTools.ttLib import TTCollection
    from fontTools.ttLib.tables.DefaultTable import DefaultTable

    rel = case["font"]
    base = corpus.font_bytes(rel)
    ver, tabs = S.sfnt_tables(base)
    seen = set()
    n_fb = n_saved = 0

    def bad(mech, what, wit):
        k = tuple(sorted(mech.items()))
        if k not in seen:
            seen.add(k)
            ctx.violation(mech, what, wit)

    def variant(tag, dname, dbytes):
        nonlocal n_fb, n_saved
        t2 = dict(tabs)
        t2[tag] = dbytes
        blob = S.build_ttc(ver, [t2, dict(t2)])
        wit = {"font": rel, "table": tag, "damage": dname, "damaged_len": len(dbytes), "collection": "2 x the same font, tables shared"}
        for share in (True, False):
            _cur["fallback"] = {}
            try:
                coll = TTCollection(io.BytesIO(blob), shareTables=share, ignoreDecompileErrors=True, recalcBBoxes=False, recalcTimestamp=False)
            except Exception as e:
                ctx.judged()
                bad({"kind": "raw-table", "what": "open-raised", "type": tname(e), "container": "ttc"},
                    "valid collection with damaged %r payload: TTCollection() raised %s" % (tag, tname(e)), wit)
                return
            fell = False
            for mi, font in enumerate(coll.fonts):
                for t in list(font.keys()):
                    if t == "GlyphOrder":
                        continue
                    try:
                        tb = font[t]
                        ctx.judged()
                    except (CaseTimeout, MemoryError, RecursionError):
                        raise
                    except Exception as e:
                        ctx.judged()
                        bad({"kind": "raw-table", "what": "access-raised", "type": tname(e), "table": t, "damaged": tag, "container": "ttc",
                             "shareTables": share},
                            "ignoreDecompileErrors=True but member %d font[%r] raised %s (damaged: %s, %s)" % (mi, t, tname(e), tag, dname), wit)
                        return
                # the damaged table decodes or falls back in the same way in every member
                tb = font[tag]
                if hasattr(tb, "ERROR") or type(tb) is DefaultTable:
                    fell = True
                    ctx.judged()
                    if type(tb) is not DefaultTable or getattr(tb, "data", None) != dbytes:
                        bad({"kind": "raw-table", "what": "fallback-lost-data", "table": tag, "container": "ttc", "shareTables": share},
                            "member %d: undecodable %r is a %s whose data differs from the file's bytes" % (mi, tag, type(tb).__name__), wit)
                        return
                # every table object must be usable: compile what was decoded, return what was kept raw
                for t in list(font.keys()):
                    if t == "GlyphOrder" or not hasattr(font[t], "ERROR"):
                        continue
                    try:
                        got = font.getTableData(t)
                    except Exception as e:
                        got = e
                    ctx.judged()
                    if got != (dbytes if t == tag else S.sfnt_tables(base)[1].get(t)):
                        bad({"kind": "raw-table", "what": "getTableData-differs", "table": t, "container": "ttc", "shareTables": share},
                            "member %d: getTableData(%r) of the raw fallback table does not return the file's bytes" % (mi, t), dict(wit, got=repr(got)[:80]))
            if not fell:
                # decoded (perhaps lazily) in one member must mean decoded in all: compare the kinds
                kinds = {type(f[tag]).__name__ for f in coll.fonts}
                ctx.judged()
                if len(kinds) > 1:
                    bad({"kind": "raw-table", "what": "members-disagree", "table": tag, "container": "ttc", "shareTables": share},
                        "the shared damaged table %r is %s in different members" % (tag, sorted(kinds)), wit)
            else:
                n_fb += 1
                ctx.nontrivial("pt:%s:%s:%s:%s" % (rel[-14:], tag, dname, share))
            # the dump the ttx tool would make must not crash on a table kept raw
            if fell:
                try:
                    coll.saveXML(io.StringIO())
                    ctx.judged()
                except (CaseTimeout, MemoryError, RecursionError):
                    raise
                except Exception as e:
                    ctx.judged()
                    culprit = lib_frame(e)
                    ctx.note("clause2:collection dump raised %s (judged only when a raw table is the cause)" % tname(e))
                    for f in coll.fonts:
                        tb = f.tables.get(tag)
                        if tb is not None and type(tb) is not DefaultTable and not hasattr(tb, "ERROR") and fell:
                            bad({"kind": "raw-table", "what": "half-initialised-table", "table": tag, "container": "ttc", "shareTables": share},
                                "a member holds a %s for the undecodable %r while another member fell back to raw bytes; the dump raised %s"
                                % (type(tb).__name__, tag, tname(e)), wit)
                            break
            kinds = [type(f[tag]).__name__ for f in coll.fonts]
            if fell and len(set(kinds)) > 1:
                ctx.judged()
                bad({"kind": "raw-table", "what": "members-disagree", "table": tag, "container": "ttc", "shareTables": share},
                    "the shared undecodable table %r is %s in the members" % (tag, kinds), wit)
            out = io.BytesIO()
            try:
                coll.save(out)
                n_saved += 1
            except (CaseTimeout, MemoryError, RecursionError):
                raise
            except Exception:
                ctx.note("clause2:collection save aborted (not judged)")
                continue
            if fell:
                try:
                    ver2, offs = S.ttc_offsets(out.getvalue())
                    for mi, o in enumerate(offs):
                        got = S.sfnt_tables(out.getvalue(), o)[1].get(tag)
                        ctx.judged()
                        if got != dbytes:
                            bad({"kind": "raw-table", "what": "resaved-differs", "table": tag, "container": "ttc", "shareTables": share},
                                "member %d: raw fallback table %r is not byte-identical in the saved collection" % (mi, tag), wit)
                except S.Bad as e:
                    bad({"kind": "raw-table", "what": "output-unparsable", "container": "ttc"}, "saved collection unparsable: %s" % e, wit)

    t_start = time.time()
    for tag in sorted(tabs):
        if tag == "head":
            continue      # members of one collection share everything here; head is covered by the sfnt cases
        if time.time() - t_start > 120:
            ctx.note("clause2:collection case stopped at its 120 s budget (remaining tables not enumerated)")
            break
        for dname, dbytes in GF.payload_damages(tabs[tag], rnd, short=case.get("short") or (4, 8)):
            if _over_budget(ctx):
                break
            try:
                with _deadline(40):
                    variant(tag, dname, dbytes)
            except CaseTimeout:
                _release()
                ctx.skip("damaged payload variant exceeded the watchdog")
            except MemoryError:
                _release()
                ctx.skip("damaged payload variant exceeded the memory limit")
            finally:
                _cur["exc"] = _cur["gtd_exc"] = None
    _cur["fallback"] = None
    ctx.note("clause2:collection variants where the shared table fell back to raw bytes", n_fb)
    ctx.note("clause2:collection saves completed", n_saved)
    ctx.sample = {"kind": "payload-ttc", "font": rel, "fallback_taken": n_fb, "saves_completed": n_saved}


# ------------------------------------------------------------------ clause 3: the audit oracle
class Sandbox:
    """case_root/{in,out,tmp,cwd}; library calls run with cwd and TMPDIR inside it."""
    count = 0

    def __init__(self, tag):
        base = os.environ.get("VMON_SCRATCH") or "/tmp/vmon-c20-scratch"
        self.scratch = os.path.realpath(base)
        self.root = os.path.join(self.scratch, "c%s" % tag)
        Sandbox.count += 1
        self.uid = "%dx%d" % (os.getpid(), Sandbox.count)      # canary names are unique per sandbox
        self.mark = "%s_%s" % (TOKEN, self.uid)
        shutil.rmtree(self.root, ignore_errors=True)
        for d in ("in", "out", "tmp", "cwd"):
            os.makedirs(os.path.join(self.root, d))
        self.indir, self.out, self.tmp, self.cwd = (os.path.join(self.root, d) for d in ("in", "out", "tmp", "cwd"))
        self.allowed = [self.out, self.tmp]

    def reset_out(self):
        for d in (self.out, self.tmp, self.cwd):
            shutil.rmtree(d, ignore_errors=True)
            os.makedirs(d)

    def close(self):
        shutil.rmtree(self.root, ignore_errors=True)

    def canary_files(self, allowed=None):
        """Files carrying the token in the worker scratch outside the allowed dirs (and directly
        inside the two directories above it, where deeper ../ payloads would land)."""
        allowed = allowed or self.allowed
        hits = []
        for dp, dn, fn in os.walk(self.scratch):
            rp = os.path.realpath(dp)
            if any(rp == a or rp.startswith(a + os.sep) for a in allowed) or rp.startswith(self.indir):
                dn[:] = []
                continue
            for n in fn + dn:
                if self.mark in n:
                    hits.append(os.path.join(dp, n))
        up = self.scratch
        for _ in range(2):
            up = os.path.dirname(up)
            try:
                hits += [os.path.join(up, n) for n in os.listdir(up) if self.mark in n]
            except OSError:
                pass
        return hits


class _run_lib:
    """Run library code under the audit recorder inside the sandbox; returns the events."""

    def __init__(self, sb, secs=20):
        self.sb, self.secs = sb, secs

    def __enter__(self):
        import tempfile

        self.old_cwd = os.getcwd()
        self.old_tmp = tempfile.tempdir
        self.old_env = os.environ.get("TMPDIR")
        tempfile.tempdir = self.sb.tmp
        os.environ["TMPDIR"] = self.sb.tmp
        os.chdir(self.sb.cwd)
        self.dl = _deadline(self.secs)
        self.rec = audit.record()
        self.log = self.rec.__enter__()
        self.dl.__enter__()
        return self

    def __exit__(self, et, ev, tb):
        import tempfile

        self.dl.__exit__(et, ev, tb)
        self.rec.__exit__(et, ev, tb)
        self.events = list(self.log)
        os.chdir(self.old_cwd)
        tempfile.tempdir = self.old_tmp
        if self.old_env is None:
            os.environ.pop("TMPDIR", None)
        else:
            os.environ["TMPDIR"] = self.old_env
        return False


_PATH_ARGS = {
    "os.mkdir": (0,), "os.rename": (0, 1), "os.remove": (0,), "os.rmdir": (0,), "os.symlink": (1,), "os.link": (1,),
    "os.truncate": (0,), "os.chmod": (0,), "shutil.rmtree": (0,), "shutil.move": (0, 1), "shutil.copyfile": (1,),
}
_SPAWN = ("os.system", "subprocess.Popen", "os.exec", "os.posix_spawn", "os.startfile")


def _inside(path, roots, cwd):
    if isinstance(path, bytes):
        path = os.fsdecode(path)
    if not isinstance(path, str):
        return True      # file descriptors etc.
    if not os.path.isabs(path):
        path = os.path.join(cwd, path)
    rp = os.path.realpath(path)
    return any(rp == r or rp.startswith(r + os.sep) for r in roots)


def judge_events(ctx, events, sb, fmt, op, site, payload, wit, allowed=None):
    """The oracle of clause 3."""
    allowed = [os.path.realpath(a) for a in (allowed or sb.allowed)]
    libconst = 0
    found = []
    for ev in events:
        k = ev[0]
        if k == "exec":
            toks = ev[2]
            if any(isinstance(t, str) and TOKEN in t for t in toks):
                found.append(({"kind": "input-executed", "format": fmt, "op": op, "site": site},
                              "a code object carrying the canary reached exec/eval (%s, %s payload at %s)" % (op, payload, site),
                              {"code_file": ev[1], "tokens": [t for t in toks if isinstance(t, str)][:12]}))
            else:
                libconst += 1
        elif k == "open":
            path, mode, flags = ev[1], ev[2], ev[3]
            if _is_write(mode, flags) and not _inside(path, allowed, sb.cwd):
                found.append(({"kind": "write-outside", "format": fmt, "op": op, "event": "open", "payload": payload, "site": site},
                              "%s opened %r for writing, outside the requested output location" % (op, path),
                              {"path": repr(path), "mode": mode, "allowed": allowed}))
        elif k in _SPAWN:
            found.append(({"kind": "process-spawned", "format": fmt, "op": op, "event": k},
                          "%s during %s" % (k, op), {"args": repr(ev[1:])[:300]}))
        elif k in _PATH_ARGS:
            for i in _PATH_ARGS[k]:
                if i + 1 < len(ev) and not _inside(ev[i + 1], allowed, sb.cwd):
                    found.append(({"kind": "write-outside", "format": fmt, "op": op, "event": k, "payload": payload, "site": site},
                                  "%s on %r, outside the requested output location" % (k, ev[i + 1]),
                                  {"path": repr(ev[i + 1]), "allowed": allowed}))
    ctx.judged()
    ctx.note("clause3:library-constant eval events (not flagged)", libconst)
    for f in sb.canary_files(allowed):
        found.append(({"kind": "canary-file", "format": fmt, "op": op, "payload": payload, "site": site},
                      "canary file %s exists after %s" % (f, op), {"file": f}))
        try:
            os.remove(f) if os.path.isfile(f) else shutil.rmtree(f)
        except OSError:
            pass
    seen = _cur.setdefault("seen_mech", set())
    for mech, what, w in found:
        key = tuple(sorted(mech.items()))
        if key in seen:
            continue
        seen.add(key)
        ctx.violation(mech, what, dict(wit, **w))
    return bool(found)


def _call(ctx, sb, fn, *a, **kw):
    """Run one library entry point in the sandbox; (events, outcome string, result)."""
    res = None
    with _run_lib(sb) as r:
        try:
            res = fn(*a, **kw)
            outcome = "accepted"
        except SystemExit as e:
            outcome = "accepted" if e.code in (0, None) else "rejected:SystemExit"
        except CaseTimeout:
            outcome = "timeout"
        except RecursionError:
            outcome = "rejected:RecursionError"
        except MemoryError:
            outcome = "rejected:MemoryError"
        except Exception as e:
            outcome = "rejected:" + tname(e)
    return r.events, outcome, res


def _ttx_cli(args):
    from fontTools import ttx

    ttx.main(args)


def _site_pick(sites, cls, rnd):
    cands = [s for s in sites if s[0] == cls]
    return rnd.choice(cands) if cands else None


def run_canary_xml(case, ctx, rnd):
    fmt, rel = case["fmt"], case["file"]
    _cur["seen_mech"] = set()
    sb = Sandbox("x")
    try:
        with open(corpus.abspath(rel), encoding="utf-8", errors="replace") as f:
            text = f.read()
        depth = 1 if fmt in ("ttx", "designspace") else 0
        sites = GT.xml_sites(text, depth)
        n_acc = n_rej = 0
        outcomes = {}
        for k, (cls, pi, occ) in enumerate(case["muts"]):
            if _over_budget(ctx):
                break
            st = _site_pick(sites, cls, random.Random("%s/%s/%s/%s" % (rel, cls, occ, case["seed"])))
            if st is None:
                ctx.skip("class vanished from file")
                continue
            pname, payload = GT.payloads(sb.root, k, sb.uid)[pi]
            mut = GT.mutate_xml(text, st, payload)
            sb.reset_out()
            wit = {"file": rel, "site": cls, "payload": pname, "value": payload[:120], "original": text[st[1]:st[2]][:60]}
            before = _cur["safeeval_token"]
            parsed = globals()["_drive_" + fmt](ctx, sb, mut, rel, cls, pname, wit, outcomes)
            reached = parsed or _cur["safeeval_token"] > before
            if reached:
                ctx.nontrivial("x:%s:%s:%s" % (fmt, cls[-24:], pname))
        ctx.note("clause3:%s mutants" % fmt, len(case["muts"]))
        for o, n in outcomes.items():
            ctx.note("clause3:%s outcome %s" % (fmt, o), n)
        ctx.sample = {"kind": "canary-xml", "format": fmt, "file": rel, "mutants": len(case["muts"]),
                      "classes": [m[0] for m in case["muts"]][:6], "outcomes": outcomes}
    finally:
        sb.close()


def _count(outcomes, o):
    o = o if len(o) < 48 else o[:48]
    outcomes[o] = outcomes.get(o, 0) + 1


_XML_TOKENIZER_ERRORS = ("ExpatError", "XMLSyntaxError", "ParseError")


def _parsed(outcome):
    """Was the mutated value looked at by library code (rather than refused by the XML tokenizer)?"""
    return not any(x in outcome for x in _XML_TOKENIZER_ERRORS)


def _drive_ttx(ctx, sb, mut, rel, cls, pname, wit, outcomes):
    from fontTools.ttLib import TTFont

    src = os.path.join(sb.indir, "hostile.ttx")
    with open(src, "w", encoding="utf-8") as f:
        f.write(mut)
    dst = os.path.join(sb.out, "compiled.bin")
    ev, outcome, _ = _call(ctx, sb, _ttx_cli, ["-q", "-f", "-o", dst, src])
    judge_events(ctx, ev, sb, "ttx", "ttx-cli compile", cls, pname, wit)
    if outcome != "accepted" or not os.path.exists(dst):
        # the CLI hides the exception type: repeat through the API to classify (and judge again)
        def api():
            f = TTFont()
            f.importXML(src)
            f.save(io.BytesIO())
        ev, outcome, _ = _call(ctx, sb, api)
        judge_events(ctx, ev, sb, "ttx", "importXML+save", cls, pname, wit)
        _count(outcomes, outcome)
        return _parsed(outcome)
    _count(outcomes, "accepted")
    # accepted: dump it again, one file per table and per glyph (file names derive from font content)
    dumpdir = os.path.join(sb.out, "dump")
    os.makedirs(dumpdir)
    ev, o2, _ = _call(ctx, sb, _ttx_cli, ["-q", "-f", "-s", "-g", "-d", dumpdir, dst])
    judge_events(ctx, ev, sb, "ttx", "ttx-cli split dump", cls, pname, wit)
    _count(outcomes, "dump:" + o2)
    return True


def _drive_designspace(ctx, sb, mut, rel, cls, pname, wit, outcomes):
    from fontTools.designspaceLib import DesignSpaceDocument

    src = os.path.join(sb.indir, "hostile.designspace")
    with open(src, "w", encoding="utf-8") as f:
        f.write(mut)

    def api():
        doc = DesignSpaceDocument.fromfile(src)
        doc.write(os.path.join(sb.out, "rewritten.designspace"))
        doc.getVariableFonts()
        return doc

    ev, outcome, doc = _call(ctx, sb, api)
    judge_events(ctx, ev, sb, "designspace", "DesignSpaceDocument read+write", cls, pname, wit)
    _count(outcomes, outcome)
    if outcome == "accepted":
        from fontTools.designspaceLib import split

        def sp():
            for name, sub in split.splitInterpolable(doc):
                for vf, vfdoc in split.splitVariableFonts(sub):
                    vfdoc.write(os.path.join(sb.out, "split.designspace"))

        ev, o2, _ = _call(ctx, sb, sp)
        judge_events(ctx, ev, sb, "designspace", "designspaceLib.split", cls, pname, wit)
        _count(outcomes, "split:" + o2)
    return _parsed(outcome)


class _G:
    pass


def _drive_glif(ctx, sb, mut, rel, cls, pname, wit, outcomes):
    from fontTools.ufoLib import glifLib
    from fontTools.pens.recordingPen import RecordingPointPen

    def api():
        g = _G()
        pen = RecordingPointPen()
        glifLib.readGlyphFromString(mut, glyphObject=g, pointPen=pen)
        return glifLib.writeGlyphToString(getattr(g, "name", None) or "x", g, pen.replay)

    ev, outcome, _ = _call(ctx, sb, api)
    judge_events(ctx, ev, sb, "glif", "readGlyphFromString+write", cls, pname, wit)
    _count(outcomes, outcome)
    return _parsed(outcome)


def _drive_plist(ctx, sb, mut, rel, cls, pname, wit, outcomes):
    from fontTools.misc import plistlib

    def api():
        return plistlib.dumps(plistlib.loads(mut.encode("utf-8")))

    ev, outcome, _ = _call(ctx, sb, api)
    judge_events(ctx, ev, sb, "plist", "plistlib.loads+dumps", cls, pname, wit)
    _count(outcomes, outcome)
    return _parsed(outcome)


# ---- feature files ----------------------------------------------------------------------
_fea_font = {}


def _fea_host_font(sb_root_unused=None):
    """A saved font with the glyph set the repo's feaLib tests use (FontBuilder, empty outlines)."""
    if "bytes" in _fea_font:
        return _fea_font["bytes"]
    from fontTools.fontBuilder import FontBuilder
    from fontTools.ttLib.tables._g_l_y_f import Glyph

    sys.path.insert(0, os.path.join(env.TESTS, "feaLib"))
    try:
        import builder_test  # noqa: the repo's own glyph list
        order = builder_test.makeTTFont().getGlyphOrder()
    except Exception:
        order = [".notdef", "space"] + list("ABCDEFGHIJKLMNOPQRSTUVWXYZabcdefghijklmnopqrstuvwxyz")
    finally:
        sys.path.pop(0)
    fb = FontBuilder(1000, isTTF=True)
    fb.setupGlyphOrder(order)
    fb.setupCharacterMap({ord(g): g for g in order if len(g) == 1})
    fb.setupGlyf({g: Glyph() for g in order})
    fb.setupHorizontalMetrics({g: (500, 0) for g in order})
    fb.setupHorizontalHeader(ascent=800, descent=-200)
    fb.setupNameTable({"familyName": "Host", "styleName": "Regular"})
    fb.setupOS2()
    fb.setupPost()
    b = io.BytesIO()
    fb.font.save(b)
    _fea_font["bytes"] = b.getvalue()
    return _fea_font["bytes"]


def run_canary_fea(case, ctx, rnd):
    from fontTools.feaLib.builder import addOpenTypeFeatures
    from fontTools.feaLib import __main__ as fea_main

    rel = case["file"]
    _cur["seen_mech"] = set()
    sb = Sandbox("f")
    try:
        with open(corpus.abspath(rel), encoding="utf-8", errors="replace") as f:
            text = f.read()
        host = os.path.join(sb.indir, "host.ttf")
        with open(host, "wb") as f:
            f.write(_fea_host_font())
        # included files sit next to the original
        srcdir = os.path.dirname(corpus.abspath(rel))
        sites = GT.fea_sites(text)
        if not sites:
            ctx.skip("no mutable token")
            return
        by = {}
        for s in sites:
            by.setdefault(s[0], []).append(s)
        classes = sorted(by)
        outcomes = {}
        for k in range(case["n"]):
            cls = classes[k % len(classes)]
            st = rnd.choice(by[cls])
            plist = GT.fea_payloads(sb.root, k, sb.uid)
            pname, payload = plist[(k // len(classes) + k) % len(plist)]
            mut = GT.mutate_fea(text, st, payload)
            sb.reset_out()
            src = os.path.join(sb.indir, "hostile.fea")
            with open(src, "w", encoding="utf-8") as f:
                f.write(mut)
            wit = {"file": rel, "site": cls, "payload": pname, "value": payload[:120], "original": text[st[1]:st[2]][:60]}

            def api():
                font = corpus.open_bytes(_fea_host_font())
                addOpenTypeFeatures(font, src)
                font.save(io.BytesIO())

            ev, outcome, _ = _call(ctx, sb, api)
            judge_events(ctx, ev, sb, "fea", "addOpenTypeFeatures+save", cls, pname, wit)
            _count(outcomes, outcome)
            if k % 3 == 0:
                ev, o2, _ = _call(ctx, sb, fea_main.main, [src, host, "-o", os.path.join(sb.out, "out.ttf")])
                judge_events(ctx, ev, sb, "fea", "feaLib-cli", cls, pname, wit)
            # a feature-file parser has no tokenizer stage to hide behind: every mutant is parsed
            ctx.nontrivial("f:%s:%s:%s" % (os.path.basename(rel)[:16], cls, pname))
        ctx.note("clause3:fea mutants", case["n"])
        for o, n in outcomes.items():
            ctx.note("clause3:fea outcome %s" % o, n)
        ctx.sample = {"kind": "canary-fea", "file": rel, "mutants": case["n"], "token_classes": classes, "outcomes": outcomes}
    finally:
        sb.close()


# ---- designspace builds through the varLib CLI ------------------------------------------------
_VF_BLOCK = """  <variable-fonts>
    <variable-font name="%(name)s"%(filename)s>
      <axis-subsets>
%(subsets)s
      </axis-subsets>
      <lib><dict><key>%(libkey)s</key><string>%(libval)s</string></dict></lib>
    </variable-font>
  </variable-fonts>
"""


def run_canary_dsbuild(case, ctx, rnd):
    """A buildable corpus designspace gets a <variable-fonts> block whose name / filename /
    lib strings are payloads; `fonttools varLib` is run with --output-dir and with -o."""
    import re
    from fontTools import varLib

    rel = case["file"]
    _cur["seen_mech"] = set()
    sb = Sandbox("d")
    try:
        with open(corpus.abspath(rel), encoding="utf-8") as f:
            text = f.read()
        axes = re.findall(r"<axis\b[^>]*\bname=\"([^\"]+)\"", text)
        if not axes or "<variable-fonts>" in text:
            ctx.skip("designspace not suitable for a generated variable-fonts block")
            return
        finder = os.path.join(env.TESTS, "varLib", "data", "master_ttx_interpolatable_ttf", "{stem}.ttx")
        subsets = "\n".join('        <axis-subset name="%s"/>' % GT.xml_escape(a, "attr") for a in axes)
        outcomes = {}
        plist = GT.payloads(sb.root, 0, sb.uid)
        built = 0
        for k in range(case["n"]):
            pname, payload = GT.payloads(sb.root, k, sb.uid)[k % len(plist)]
            for field in ("filename", "name", "lib"):
                esc = GT.xml_escape(payload, "attr")
                block = _VF_BLOCK % {
                    "name": esc if field == "name" else "HostVF",
                    "filename": ' filename="%s"' % (esc if field == "filename" else "HostVF.ttf") if field != "name" else "",
                    "subsets": subsets,
                    "libkey": GT.xml_escape(payload, "text") if field == "lib" else "k",
                    "libval": GT.xml_escape(payload, "text") if field == "lib" else "v",
                }
                mut = re.sub(r'format="[\d.]+"', 'format="5.0"', text, count=1)
                mut = mut.replace("</designspace>", block + "</designspace>")
                sb.reset_out()
                src = os.path.join(sb.indir, "hostile.designspace")
                with open(src, "w", encoding="utf-8") as f:
                    f.write(mut)
                outdir = os.path.join(sb.out, "vf")
                wit = {"file": rel, "site": "variable-font@" + field, "payload": pname, "value": payload[:120]}
                ev, outcome, _ = _call(ctx, sb, varLib.main, [src, "--output-dir", outdir, "--master-finder", finder, "-q"])
                judge_events(ctx, ev, sb, "designspace", "varLib-cli --output-dir", "variable-font@" + field, pname, wit,
                             allowed=[outdir, sb.tmp])
                _count(outcomes, "%s:%s" % (field, outcome))
                if outcome == "accepted":
                    built += 1
                ctx.nontrivial("d:%s:%s:%s" % (os.path.basename(rel)[:14], field, pname))
        ctx.note("clause3:designspace builds through varLib CLI", built)
        ctx.sample = {"kind": "canary-dsbuild", "file": rel, "outcomes": outcomes}
    finally:
        sb.close()


# ---- UFO directories --------------------------------------------------------------------------
def run_canary_ufo(case, ctx, rnd):
    """One file of a corpus UFO (glif, plist, contents.plist, layercontents.plist ...) is
    mutated inside a copy; the copy is read with UFOReader, written to a second UFO with
    UFOWriter and modified in place.  Requested locations: the two UFO directories."""
    from fontTools.ufoLib import UFOReader, UFOWriter
    from fontTools.pens.recordingPen import RecordingPointPen

    rel = case["file"]
    _cur["seen_mech"] = set()
    src_ufo = corpus.abspath(rel)
    if not os.path.isdir(src_ufo):
        ctx.skip("not a UFO directory")
        return
    sb = Sandbox("u")
    try:
        files = []
        for dp, dn, fn in os.walk(src_ufo):
            for n in fn:
                if n.endswith((".glif", ".plist")):
                    files.append(os.path.relpath(os.path.join(dp, n), src_ufo))
        files.sort()
        if not files:
            ctx.skip("no text files in UFO")
            return
        # contents.plist / layercontents.plist first: they carry file names
        pri = [f for f in files if f.endswith("contents.plist")]
        outcomes = {}
        for k in range(case["n"]):
            target = pri[k // 2 % len(pri)] if (pri and k % 2 == 0) else rnd.choice(files)
            with open(os.path.join(src_ufo, target), encoding="utf-8", errors="replace") as f:
                text = f.read()
            sites = GT.xml_sites(text, 0)
            if not sites:
                continue
            st = rnd.choice(sites)
            plist = GT.payloads(sb.root, k, sb.uid)
            pname, payload = plist[k % len(plist)]
            if target.endswith("contents.plist") and st[0].endswith("string#text") and not payload.endswith(".glif") and k % 4 == 0:
                payload = payload + ".glif"
            sb.reset_out()
            work = os.path.join(sb.out, "hostile.ufo")
            copy = os.path.join(sb.out, "copy.ufo")
            shutil.copytree(src_ufo, work)
            with open(os.path.join(work, target), "w", encoding="utf-8") as f:
                f.write(GT.mutate_xml(text, st, payload))
            wit = {"ufo": rel, "file": target, "site": st[0], "payload": pname, "value": payload[:120]}
            fmt = "plist" if target.endswith(".plist") else "glif"

            def api():
                r = UFOReader(work, validate=(k % 3 != 0))
                w = UFOWriter(copy, validate=(k % 3 != 0))
                info = _G()
                r.readInfo(info)
                w.writeInfo(info)
                w.writeGroups(r.readGroups())
                w.writeKerning(r.readKerning())
                w.writeLib(r.readLib())
                for layer in r.getLayerNames():
                    gs = r.getGlyphSet(layer)
                    ws = w.getGlyphSet(layer, defaultLayer=(layer == r.getDefaultLayerName()))
                    for name in gs.keys():
                        g = _G()
                        pen = RecordingPointPen()
                        gs.readGlyph(name, g, pen)
                        ws.writeGlyph(name, g, pen.replay)
                    ws.writeContents()
                w.writeLayerContents()
                w.close()

            ev, outcome, _ = _call(ctx, sb, api)
            judge_events(ctx, ev, sb, fmt, "UFOReader -> UFOWriter", st[0], pname, wit, allowed=[work, copy, sb.tmp])
            _count(outcomes, outcome)

            def inplace():
                w = UFOWriter(work, validate=False)
                gs = w.getGlyphSet()
                for name in list(gs.keys())[:3]:
                    g = _G()
                    pen = RecordingPointPen()
                    gs.readGlyph(name, g, pen)
                    gs.writeGlyph(name, g, pen.replay)
                gs.writeContents()
                w.close()

            ev, o2, _ = _call(ctx, sb, inplace)
            judge_events(ctx, ev, sb, fmt, "UFOWriter in place", st[0], pname, wit, allowed=[work, sb.tmp])
            _count(outcomes, "inplace:" + o2)
            if _parsed(outcome):
                ctx.nontrivial("u:%s:%s:%s" % (os.path.basename(rel)[:12], (target + st[0])[-20:], pname))
        ctx.note("clause3:ufo mutants", case["n"])
        for o, n in outcomes.items():
            ctx.note("clause3:ufo outcome %s" % o, n)
        ctx.sample = {"kind": "canary-ufo", "ufo": rel, "mutants": case["n"], "outcomes": outcomes}
    finally:
        sb.close()


# ---- CLI entry points on fonts whose strings are hostile ------------------------------------------
def run_canary_cli(case, ctx, rnd):
    """Fonts compiled from TTX whose glyph names / name records / axis tags are payloads, pushed
    through the subset, merge, instancer and ttx command lines with outputs inside the sandbox."""
    from fontTools import subset, merge
    from fontTools.varLib import instancer

    _cur["seen_mech"] = set()
    sb = Sandbox("l")
    try:
        bases = ["ttx/data/TestTTF.ttx", "fontBuilder/data/test_var.ttf.ttx", "ttx/data/TestOTF.ttx"]
        bases = [b for b in bases if _exists(b)]
        outcomes = {}
        for k in range(case.get("part", 0) * case["n"], (case.get("part", 0) + 1) * case["n"]):
            rel = bases[(k // 2) % len(bases)]
            if k % 2 == 0:
                ttfs = [b for b in ("ttx/data/TestTTF.ttx", "ttLib/data/TestTTF-Regular.ttx", "subset/data/TestTTF-Regular.ttx") if _exists(b)]
                rel = ttfs[(k // 2 // 3) % len(ttfs)] if ttfs else rel     # split dumps name files after outlined glyf glyphs
            with open(corpus.abspath(rel), encoding="utf-8") as f:
                text = f.read()
            sites = [s for s in GT.xml_sites(text, 1) if s[0] in ("GlyphOrder/GlyphID@name", "name/namerecord#text",
                                                                  "post/psName@name", "fvar/AxisTag#text", "cmap/map@name")]
            glyph = [s for s in sites if s[0] == "GlyphOrder/GlyphID@name"]
            plist = GT.payloads(sb.root, k, sb.uid)
            if k % 2 == 0 and glyph:
                # glyph names end up in file names of split dumps: path payloads first
                pref = [p for p in plist if p[0].startswith("path")] + [p for p in plist if not p[0].startswith("path")]
                pname, payload = pref[(k // 2) % len(pref)]
                # rename one glyph consistently (all occurrences of the name as an attribute value)
                import re as _re

                outlined = set(_re.findall(r'<TTGlyph name="([^"]+)"[^>]*>\s*<contour>', text))
                cands = [g for g in glyph[1:] if text[g[1]:g[2]] in outlined] or glyph[1:] or glyph
                st = rnd.choice(cands)
                old = text[st[1]:st[2]]
                esc = GT.xml_escape(payload, "attr")
                mut = text.replace('"%s"' % old, '"%s"' % esc)
                cls = "glyph-name"
            else:
                pname, payload = plist[(k // 2) % len(plist)]
                st = rnd.choice([s for s in sites if s[0] != "GlyphOrder/GlyphID@name"] or sites)
                mut = GT.mutate_xml(text, st, payload)
                cls = st[0]
            sb.reset_out()
            src = os.path.join(sb.indir, "hostile.ttx")
            with open(src, "w", encoding="utf-8") as f:
                f.write(mut)
            font = os.path.join(sb.out, "hostile.ttf")
            wit = {"file": rel, "site": cls, "payload": pname, "value": payload[:120]}
            ev, outcome, _ = _call(ctx, sb, _ttx_cli, ["-q", "-f", "-o", font, src])
            judge_events(ctx, ev, sb, "ttx", "ttx-cli compile", cls, pname, wit)
            _count(outcomes, "compile:" + outcome)
            if not os.path.exists(font):
                continue
            ctx.nontrivial("l:%s:%s:%s" % (os.path.basename(rel)[:10], cls[-16:], pname))
            runs = [
                ("subset-cli", subset.main, [font, "--output-file=" + os.path.join(sb.out, "sub.ttf"), "--glyphs=*", "--glyph-names",
                                             "--layout-features=*", "--name-IDs=*", "--notdef-outline"]),
                ("merge-cli", merge.main, [font, font, "--output-file=" + os.path.join(sb.out, "merged.ttf")]),
                ("ttx-cli split dump", _ttx_cli, ["-q", "-f", "-s", "-g", "-d", sb.out, font]),
                ("ttx-cli dump", _ttx_cli, ["-q", "-f", "-o", os.path.join(sb.out, "dump.ttx"), font]),
            ]
            if "<fvar>" in text:
                import re as _re2

                m = _re2.search(r'<AxisTag value="([A-Za-z ]{4})"', text)
                if m:
                    runs.append(("instancer-cli", instancer.main, [font, "%s=drop" % m.group(1), "-o", os.path.join(sb.out, "inst.ttf"), "-q"]))
            for op, fn, args in runs:
                ev, o, _ = _call(ctx, sb, fn, args)
                judge_events(ctx, ev, sb, "ttx", op, cls, pname, wit)
                _count(outcomes, "%s:%s" % (op, o))
        ctx.sample = {"kind": "canary-cli", "mutants": case["n"], "outcomes": outcomes}
        for o, n in outcomes.items():
            ctx.note("clause3:cli %s" % o, n)
    finally:
        sb.close()


# ------------------------------------------------------------------ clause 4
PRECIOUS = b"PRECIOUS-DESTINATION-CONTENT\n" * 7


def _libfile(fn):
    return fn.startswith(env.LIB)


def _load_for_save(rel, op):
    """A fresh, fully decompiled font (so that every table's compile code runs in the save)."""
    f = corpus.open_bytes(corpus.font_bytes(rel))
    for t in f.keys():
        if t != "GlyphOrder":
            f[t]
    if op.endswith("/woff"):
        f.flavor = "woff"
    elif op.endswith("/woff2"):
        f.flavor = "woff2"
    return f


def _save_op(op, rel, dest, sb, prepared=None):
    """Returns a zero-argument callable performing the save and the list of fonts involved."""
    from fontTools.ttLib import TTCollection

    if op.startswith("TTFont.save"):
        f = prepared or _load_for_save(rel, op)
        return (lambda: f.save(dest)), [f]
    if op == "TTCollection.save":
        c = TTCollection()
        c.fonts = [_load_for_save(rel, op), _load_for_save(rel, op)]
        return (lambda: c.save(dest)), c.fonts
    if op == "subset.save_font":
        from fontTools import subset

        f = prepared or _load_for_save(rel, op)
        opts = subset.Options()
        return (lambda: subset.save_font(f, dest, opts)), [f]
    if op == "ttx.ttCompile":
        from fontTools import ttx

        src = os.path.join(sb.indir, "src.ttx")
        if not os.path.exists(src):
            corpus.open_bytes(corpus.font_bytes(rel)).saveXML(src)
        opts = ttx.Options([], 1)
        return (lambda: ttx.ttCompile(src, dest, opts)), []
    raise ValueError(op)


def _prepare_dest(sb):
    shutil.rmtree(sb.out, ignore_errors=True)
    os.makedirs(sb.out)
    dest = os.path.join(sb.out, "dest.bin")
    with open(dest, "wb") as f:
        f.write(PRECIOUS)
    return dest


def _dest_ok(sb, dest):
    try:
        with open(dest, "rb") as f:
            same = f.read() == PRECIOUS
    except OSError:
        same = False
    stray = sorted(set(os.listdir(sb.out)) - {os.path.basename(dest)})
    return same, stray


def run_failsave_lines(case, ctx, rnd):
    rel, op = case["font"], case["op"]
    sb = Sandbox("s")
    try:
        fp = probes.FailpointSession(_libfile)
        dest = _prepare_dest(sb)
        try:
            run, fonts = _save_op(op, rel, dest, sb)
        except Exception as e:
            ctx.skip("cannot prepare %s: %s" % (op, type(e).__name__))
            return
        _cur.update(fp=fp, dest=dest, boundary=None)
        try:
            with fp.record():
                run()
        except Exception as e:
            _cur.update(fp=None, dest=None)
            ctx.skip("baseline %s raised %s" % (op, type(e).__name__))
            return
        boundary = _cur["boundary"]
        _cur.update(fp=None)
        if boundary is None or boundary < 0:
            ctx.inconclusive("destination open not observed during %s" % op)
            return
        pts = list(range(boundary))
        mine = pts[case["part"]::case["parts"]]
        mine = mine[(case["seed"] % case["stride"])::case["stride"]]
        ctx.note("clause4:points before the destination is opened (%s)" % op, boundary if case["part"] == 0 else 0)
        ctx.note("clause4:points after the destination is opened (out of scope)", (len(fp.points) - boundary) if case["part"] == 0 else 0)
        fired = raised = swallowed = 0
        seen = set()
        for k in mine:
            if _over_budget(ctx):
                break
            dest = _prepare_dest(sb)
            _cur.update(dest=dest, boundary=None)
            try:
                run, fonts = _save_op(op, rel, dest, sb)
            except Exception:
                continue
            err = None
            with fp.inject(k):
                try:
                    run()
                except probes.Injected as e:
                    err = e
                except (CaseTimeout, MemoryError):
                    raise
                except Exception as e:
                    err = e
            if not fp.fired:
                continue  # line not reached this time (state-dependent path)
            fired += 1
            if err is None:
                swallowed += 1   # the library handled the failure and completed the save
                continue
            raised += 1
            ctx.judged()
            same, stray = _dest_ok(sb, dest)
            fn, qn, ln = fp.points[k]
            ctx.nontrivial("s:%s:%s:%s:%d" % (op, rel[-10:], os.path.basename(fn)[:12], ln))
            if not same or stray:
                mech = {"kind": "failed-save-clobbers", "op": op, "inject": "line-before-open",
                        "what": "destination-modified" if not same else "stray-file"}
                key = tuple(sorted(mech.items()))
                if key not in seen:
                    seen.add(key)
                    ctx.violation(mech, "%s raised at %s:%d (%s) and the existing destination file was %s"
                                  % (op, os.path.relpath(fn, env.LIB), ln, qn, "modified" if not same else "left with stray files %s" % stray),
                                  {"font": rel, "point": [os.path.relpath(fn, env.LIB), qn, ln], "opened_before_failure": _cur["boundary"] is not None,
                                   "stray": stray})
        _cur.update(dest=None)
        ctx.note("clause4:failpoints fired", fired)
        ctx.note("clause4:failpoints where the save raised", raised)
        ctx.note("clause4:failpoints swallowed by the library", swallowed)
        ctx.sample = {"kind": "failsave-lines", "font": rel, "op": op, "points_before_open": boundary, "points_total": len(fp.points),
                      "injected_here": len(mine), "fired": fired, "save_raised": raised}
    finally:
        _cur.update(fp=None, dest=None)
        sb.close()


class _Boom(RuntimeError):
    pass


def run_failsave_compile(case, ctx, rnd):
    rel, op = case["font"], case["op"]
    sb = Sandbox("k")
    try:
        base = corpus.open_bytes(corpus.font_bytes(rel))
        tags = [t for t in base.keys() if t != "GlyphOrder"]
        seen = set()
        n = 0
        for tag in tags:
            dest = _prepare_dest(sb)
            try:
                run, fonts = _save_op(op, rel, dest, sb)
            except Exception as e:
                ctx.skip("cannot prepare %s: %s" % (op, type(e).__name__))
                return
            victim = fonts[-1][tag]

            def boom(font, _tag=tag):
                raise _Boom("injected compile failure in %r" % _tag)

            victim.compile = boom
            try:
                run()
                ctx.note("clause4:compile failure did not abort the save")
                continue
            except _Boom:
                pass
            except (CaseTimeout, MemoryError):
                raise
            except Exception as e:
                ctx.note("clause4:compile injection surfaced as %s" % tname(e))
            n += 1
            ctx.judged()
            ctx.nontrivial("k:%s:%s:%s" % (op, rel[-10:], tag))
            same, stray = _dest_ok(sb, dest)
            if not same or stray:
                mech = {"kind": "failed-save-clobbers", "op": op, "inject": "table-compile",
                        "what": "destination-modified" if not same else "stray-file"}
                key = tuple(sorted(mech.items()))
                if key not in seen:
                    seen.add(key)
                    try:
                        size = os.path.getsize(dest)
                    except OSError:
                        size = None
                    ctx.violation(mech, "%s failed in the compile of %r and the existing destination file was %s"
                                  % (op, tag, "modified (now %s bytes, was %d)" % (size, len(PRECIOUS)) if not same else "left with stray files %s" % stray),
                                  {"font": rel, "table": tag, "stray": stray})
        ctx.note("clause4:table-compile failures injected", n)
        ctx.sample = {"kind": "failsave-compile", "font": rel, "op": op, "tables": len(tags), "failed_saves": n}
    finally:
        sb.close()


def run_failsave_cli(case, ctx, rnd):
    """The command-line tools: a job that fails (a table compile raising; an input whose field is out of
    range; an unparsable input) while the destination already exists must leave that file alone."""
    from fontTools import ttx, subset, merge, varLib
    from fontTools.varLib import instancer
    from fontTools.ttLib import getTableClass

    sb = Sandbox("q")
    seen = set()
    try:
        ttf = os.path.join(sb.indir, "good.ttf")
        with open(ttf, "wb") as f:
            f.write(corpus.font_bytes("ttx/data/TestTTF.ttf"))
        good_ttx = corpus.abspath("ttx/data/TestTTF.ttx")
        with open(good_ttx, encoding="utf-8") as f:
            text = f.read()
        import re as _re

        bad_value = _re.sub(r'(<usWeightClass value=")\d+(")', r"\g<1>100000\g<2>", text, count=1)
        broken_xml = text[: len(text) // 2]
        varttf = os.path.join(sb.indir, "var.ttf")
        try:
            with open(varttf, "wb") as f:
                f.write(corpus.font_bytes("fontBuilder/data/test_var.ttf.ttx"))
        except Exception:
            varttf = None
        ds = corpus.abspath("varLib/data/BuildAvarSingleAxis.designspace")
        finder = os.path.join(env.TESTS, "varLib", "data", "master_ttx_interpolatable_ttf", "{stem}.ttx")

        def ttx_in(content, name="job.ttx"):
            p = os.path.join(sb.out, name)
            with open(p, "w", encoding="utf-8") as f:
                f.write(content)
            return p

        def jobs(dest):
            """(label, callable, failure kind) - every one writes to `dest` (which exists beforehand)."""
            out = []
            for flav in (None, "woff", "woff2"):
                fl = ["--flavor", flav] if flav else []
                out.append(("ttx -f -o%s" % (" --flavor " + flav if flav else ""), lambda fl=fl: ttx.main(["-q", "-f", "-o", dest] + fl + [ttx_in(text)]), "table-compile"))
            out.append(("ttx -f -o", lambda: ttx.main(["-q", "-f", "-o", dest, ttx_in(bad_value)]), "field-out-of-range"))
            out.append(("ttx -f -o", lambda: ttx.main(["-q", "-f", "-o", dest, ttx_in(broken_xml)]), "unparsable-input"))
            # no -o: the output name is derived from the input name (dest = <input stem>.ttf, overwritten with -f)
            stem = os.path.splitext(dest)[0]
            out.append(("ttx -f", lambda: ttx.main(["-q", "-f", ttx_in(bad_value, os.path.basename(stem) + ".ttx")]), "field-out-of-range"))
            out.append(("ttx -f", lambda: ttx.main(["-q", "-f", ttx_in(text, os.path.basename(stem) + ".ttx")]), "table-compile"))
            out.append(("ttx -f -d", lambda: ttx.main(["-q", "-f", "-d", os.path.dirname(dest), ttx_in(bad_value, os.path.join("..", "in", os.path.basename(stem) + ".ttx"))]),
                        "field-out-of-range"))
            out.append(("subset --output-file", lambda: subset.main([ttf, "--output-file=" + dest, "--glyphs=*"]), "table-compile"))
            out.append(("merge --output-file", lambda: merge.main([ttf, ttf, "--output-file=" + dest]), "table-compile"))
            if varttf:
                out.append(("instancer -o", lambda: instancer.main([varttf, "LEFT=drop", "-o", dest, "-q"]), "table-compile"))
            out.append(("varLib -o", lambda: varLib.main([ds, "-o", dest, "--master-finder", finder, "-q"]), "table-compile"))
            return out

        n = 0
        dest0 = os.path.join(sb.out, "dest.ttf")
        labels = [(lab, kind) for lab, fn, kind in jobs(dest0)]
        for idx, (lab, kind) in enumerate(labels):
            if idx % (2 if case.get("deep") else 1) != case.get("part", 0) % (2 if case.get("deep") else 1):
                continue
            for victim in (("name", "head", "maxp", "OS/2") if kind == "table-compile" else (None,)):
                dest = _prepare_dest(sb)
                dest = os.path.join(sb.out, "dest.ttf")
                os.rename(os.path.join(sb.out, "dest.bin"), dest)
                os.makedirs(sb.indir, exist_ok=True)
                fn = jobs(dest)[idx][1]
                cls = getTableClass(victim) if victim else None
                orig = cls.compile if cls else None

                def boom(self, font, _t=victim):
                    raise _Boom("injected compile failure in %r" % _t)

                if cls:
                    cls.compile = boom
                failed = False
                try:
                    with _run_lib(sb, secs=60):
                        try:
                            fn()
                        except SystemExit as e:
                            failed = e.code not in (0, None)
                        except (CaseTimeout, MemoryError):
                            raise
                        except Exception:
                            failed = True
                finally:
                    if cls:
                        cls.compile = orig
                if not failed:
                    ctx.note("clause4:cli job did not fail (%s, %s)" % (lab, kind))
                    continue
                n += 1
                ctx.judged()
                ctx.nontrivial("q:%s:%s:%s" % (lab, kind, victim))
                try:
                    with open(dest, "rb") as f:
                        same = f.read() == PRECIOUS
                except OSError:
                    same = False
                stray = sorted(x for x in os.listdir(sb.out) if x != "dest.ttf" and not x.endswith(".ttx"))
                if not same or stray:
                    mech = {"kind": "failed-save-clobbers", "op": lab, "inject": kind, "what": "destination-modified" if not same else "stray-file"}
                    key = tuple(sorted(mech.items()))
                    if key not in seen:
                        seen.add(key)
                        try:
                            size = os.path.getsize(dest)
                        except OSError:
                            size = None
                        ctx.violation(mech, "%s: the job failed (%s%s) and the existing destination was %s"
                                      % (lab, kind, " in %r" % victim if victim else "",
                                         "modified (now %s bytes, was %d)" % (size, len(PRECIOUS)) if not same else "left with stray files %s" % stray),
                                      {"cli": lab, "failure": kind, "table": victim, "stray": stray})
        # ---- without -f an existing output is never overwritten: the tool picks a free name (Font#1.ttf)
        keep = 0
        if case.get("part", 0) == 0:
            for lab, make in (
                ("ttx -d (no -f)", lambda out, src: ttx.main(["-q", "-d", out, src])),
                ("ttx (no -f)", lambda out, src: ttx.main(["-q", src])),
                ("ttx -d dump (no -f)", lambda out, src: ttx.main(["-q", "-d", out, ttf])),
            ):
                shutil.rmtree(sb.out, ignore_errors=True)
                os.makedirs(sb.out)
                srcdir = os.path.join(sb.out, "src") if "-d" in lab else sb.out
                os.makedirs(srcdir, exist_ok=True)
                src = os.path.join(srcdir, "Font.ttx")
                with open(src, "w", encoding="utf-8") as f:
                    f.write(text)
                victim = os.path.join(sb.out, "good.ttx" if "dump" in lab else "Font.ttf")
                with open(victim, "wb") as f:
                    f.write(PRECIOUS)
                ok = True
                with _run_lib(sb, secs=60):
                    try:
                        make(sb.out, src)
                    except SystemExit as e:
                        ok = e.code in (0, None)
                    except (CaseTimeout, MemoryError):
                        raise
                    except Exception:
                        ok = False
                ctx.judged()
                keep += 1
                ctx.nontrivial("q:keep:%s" % lab)
                with open(victim, "rb") as f:
                    same = f.read() == PRECIOUS
                if not same:
                    mech = {"kind": "existing-file-overwritten", "op": lab}
                    if tuple(sorted(mech.items())) not in seen:
                        seen.add(tuple(sorted(mech.items())))
                        ctx.violation(mech, "%s overwrote the existing %s although -f was not given (job %s)"
                                      % (lab, os.path.basename(victim), "succeeded" if ok else "failed"),
                                      {"cli": lab, "files_after": sorted(os.listdir(sb.out))})
        ctx.note("clause4:runs without -f next to an existing output", keep)
        ctx.note("clause4:failing command-line jobs", n)
        ctx.sample = {"kind": "failsave-cli", "failing_jobs": n, "no_overwrite_runs": keep, "entry_points": sorted({l for l, k in labels})}
    finally:
        sb.close()
