"""C13 — curve conversion stays within tolerance and keeps masters compatible.

Post-condition monitors on cu2qu.curve_to_quadratic / curves_to_quadratic and
qu2cu.quadratic_to_curves (the real functions, also when reached through the pens and
the UFO glyph helpers).  Oracle: vmon/oracle/bezier.py — parametric Bernstein bound of
the error curve first (the library's own criterion, cheap); a parametric failure is
only reported when the parameter-free geometric distance (what the property states)
also exceeds the tolerance.
"""
import math
import random

from vmon import hooks
from vmon.oracle import bezier as BZ

PROPERTY = "C13"
LEVEL = "exploration"
RULE = ("seeded generator of cubic Béziers by family (generic, degenerate, loop, collinear overshoot, cusp, "
        "inflection, exactly elevated quadratic, axis aligned) x coordinate magnitude x tolerance x all_quadratic; "
        "lists of 2-6 perturbed 'master' curves; quadratic splines (smooth, cornered, many off-curves) for the "
        "reverse direction; pens and UFO glyph helpers as drivers. A case is non-trivial and distinct by "
        "(function, family, magnitude, tolerance class, number of output segments)")
ASSUMPTIONS = [
    "tolerance comparisons allow tol*(1+1e-9) + 1e-12*scale for binary floating point noise",
    "a parametric-bound failure is reported only if the geometric (parameter-free) two-sided distance, measured on "
    "dense polylines with a computed chord-error allowance, also exceeds the tolerance",
    "'error was due' is only flagged when the library raises although the same spline family fits with half the tolerance and n <= 50",
    "pure-Python cu2qu/qu2cu are monitored (the Cython variants are not built in this environment)",
]
REQUIRED_MONITORS = ["curve_to_quadratic", "curves_to_quadratic", "quadratic_to_curves"]
CASE_TIMEOUT = 900
MANIFEST = {
    "text": "Exploration: tens of thousands of generated cubic curves, master lists and quadratic splines are converted by the real functions; a post-condition monitor checks end points exactly, the deviation with an independent Bernstein-coefficient bound of the error curve backed by a parameter-free geometric distance, equal segment counts across masters, and that errors are not raised when a fitting spline of the same family exists. Whole outlines are also driven through Cu2QuPen, Cu2QuPointPen, Cu2QuMultiPen and Qu2CuPen (chains of consecutive curves judged segment by segment, tip/cusp junctions, masters with points collapsed in some masters only, with and without direction reversal) and through glyphs_to_quadratic / fonts_to_quadratic with per-master tolerances and units-per-em; there the oracle compares the drawn input with the recorded output geometrically, because a pen handing the wrong curve to the converter is invisible to the per-call monitor. The unit tests only sample a few curves; the monitor judges every conversion executed, including those reached through the pens and glyph helpers.",
    "note": "Trusted base: vmon/oracle/bezier.py (de Casteljau, degree elevation, control-polygon bound, numpy polyline distance). Float noise allowance tol*1e-9 + 1e-12*scale. Cython-compiled variants are out of reach (not built here).",
    "technique": "post-condition monitors on the conversion functions; independent Bernstein bound + geometric Hausdorff oracle; seeded curve-family generator",
    "design_ref": "DESIGN.md §4 C13",
}

_cur = {"keys": set(), "n": 0, "geo": 0, "ctxinfo": None}


def _pt(p):
    if isinstance(p, complex):
        return (p.real, p.imag)
    return (float(p[0]), float(p[1]))


def _scale(pts):
    return max([1e-30] + [abs(c) for p in pts for c in p])


def _tolclass(tol, scale):
    r = tol / max(scale, 1e-30)
    return "huge" if r >= 1 else "large" if r > 1e-2 else "mid" if r > 1e-4 else "tight"


def _finite(pts):
    return all(math.isfinite(c) for p in pts for c in p)


def _report(func, what, **w):
    hooks.report({"kind": "curve", "func": func, "what": what},
                 "%s: %s" % (func, what), w)


def _check_spline(func, cubic, spline, tol, all_quadratic, family):
    """Judge one returned approximation of one cubic."""
    cubic = [_pt(p) for p in cubic]
    spline = [_pt(p) for p in spline]
    scale = _scale(cubic)
    _cur["n"] += 1
    if spline[0] != cubic[0] or spline[-1] != cubic[3]:
        _report(func, "result does not start/end on the cubic's end points", cubic=cubic, spline=spline[:6], tol=tol)
        return
    if not all_quadratic and len(spline) == 4:
        if spline != cubic:
            _report(func, "all_quadratic=False returned a cubic that is not the input", cubic=cubic, spline=spline)
        _cur["keys"].add("%s/%s/cubic-kept" % (func, family))
        return
    if not all_quadratic and len(spline) != 3:
        _report(func, "all_quadratic=False returned %d points" % len(spline), cubic=cubic, spline=spline[:8])
        return
    if len(spline) < 3:
        _report(func, "spline with fewer than 3 points", cubic=cubic, spline=spline)
        return
    tol_eff = tol * (1 + 1e-9) + 1e-12 * scale
    ok, info = BZ.parametric_check(cubic, spline, tol_eff)
    if ok is not True:
        _cur["geo"] += 1
        quads = BZ.spline_quadratics(spline)
        exceeds, measured, allow = BZ.hausdorff_exceeds([tuple(cubic)], [tuple(q) for q in quads], tol, scale)
        if exceeds:
            _report(func, "spline leaves the tolerance neighbourhood of the cubic",
                    cubic=cubic, spline=spline[:12], tol=tol, parametric=info, geometric_distance=measured, allowance=allow)
            return
    _cur["keys"].add("%s/%s/%s/n%d" % (func, family, _tolclass(tol, scale), min(len(spline) - 2, 12)))


def _family_fit_exists(cubic, tol, nmax=50):
    """Own construction of the same spline family (n >= 2): control point of piece i is
    lerp(p0+1.5(p1-p0), p3+1.5(p2-p3), i/(n-1))."""
    for n in range(2, nmax + 1):
        sp = [cubic[0]]
        for i in range(n):
            pc = BZ.cubic_piece(cubic, i / n, (i + 1) / n)
            a = (pc[0][0] + (pc[1][0] - pc[0][0]) * 1.5, pc[0][1] + (pc[1][1] - pc[0][1]) * 1.5)
            b = (pc[3][0] + (pc[2][0] - pc[3][0]) * 1.5, pc[3][1] + (pc[2][1] - pc[3][1]) * 1.5)
            sp.append(BZ.lerp(a, b, i / (n - 1)))
        sp.append(cubic[3])
        ok, _ = BZ.parametric_check(cubic, sp, tol)
        if ok is True:
            return n
    return None


def setup():
    import fontTools.cu2qu.cu2qu as CU
    import fontTools.cu2qu as CUpkg
    import fontTools.qu2cu.qu2cu as QU
    import fontTools.qu2cu as QUpkg
    import fontTools.pens.cu2quPen  # aliases get rebound
    import fontTools.pens.qu2cuPen
    import fontTools.cu2qu.ufo
    from fontTools.cu2qu.errors import ApproxNotFoundError

    def fam():
        return (_cur["ctxinfo"] or {}).get("family", "via-driver")

    def post_c2q(st, a, kw, res, exc):
        curve, max_err, all_q = a[0], a[1], a[2]
        cubic = [_pt(p) for p in curve]
        if len(cubic) != 4 or not _finite(cubic) or not (max_err > 0) or not math.isfinite(max_err):
            return
        if exc is not None:
            if isinstance(exc, ApproxNotFoundError) and all_q:
                _cur["n"] += 1
                n = _family_fit_exists(cubic, max_err * 0.5)
                if n is not None:
                    _report("curve_to_quadratic", "ApproxNotFoundError raised although a spline fits",
                            cubic=cubic, tol=max_err, fitting_n=n)
                _cur["keys"].add("curve_to_quadratic/%s/raised" % fam())
            elif not isinstance(exc, ApproxNotFoundError):
                _report("curve_to_quadratic", "raised %s on finite input" % type(exc).__name__, cubic=cubic, tol=max_err)
            return
        _check_spline("curve_to_quadratic", cubic, res, max_err, all_q, fam())

    def post_cs2q(st, a, kw, res, exc):
        curves, max_errors, all_q = a[0], a[1], a[2]
        cubics = [[_pt(p) for p in c] for c in curves]
        if not cubics or len(max_errors) != len(cubics) or any(len(c) != 4 or not _finite(c) for c in cubics):
            return
        if not all(e > 0 and math.isfinite(e) for e in max_errors):
            return
        if exc is not None:
            if isinstance(exc, ApproxNotFoundError):
                _cur["n"] += 1
                if all_q:
                    ns = [_family_fit_exists(c, e * 0.5, 12) for c, e in zip(cubics, max_errors)]
                    # a common n <= 12 that fits all curves with half tolerance must have been found
                    if all(n is not None for n in ns):
                        common = max(ns)
                        if all(_fits_at(c, e * 0.5, common) for c, e in zip(cubics, max_errors)):
                            _report("curves_to_quadratic", "ApproxNotFoundError raised although a common n fits all curves",
                                    cubics=cubics, tols=list(max_errors), n=common)
                _cur["keys"].add("curves_to_quadratic/%s/raised" % fam())
            elif not isinstance(exc, (ApproxNotFoundError,)):
                _report("curves_to_quadratic", "raised %s on finite input" % type(exc).__name__, cubics=cubics[:3])
            return
        if len(res) != len(cubics):
            _report("curves_to_quadratic", "number of results differs from number of curves", n_in=len(cubics), n_out=len(res))
            return
        lens = {len(s) for s in res}
        if len(lens) != 1:
            _cur["n"] += 1
            _report("curves_to_quadratic", "results have different numbers of segments",
                    lengths=[len(s) for s in res], cubics=cubics[:4], tols=list(max_errors)[:4])
            return
        for c, s, e in zip(cubics, res, max_errors):
            _check_spline("curves_to_quadratic", c, s, e, all_q, fam())
        _cur["keys"].add("curves_to_quadratic/%s/m%d/n%d" % (fam(), len(cubics), min(lens.pop() - 2, 12)))

    def post_q2c(st, a, kw, res, exc):
        quads, max_err, all_cubic = a[0], a[1], a[2]
        if not quads:
            return
        splines = [[_pt(p) for p in sp] for sp in quads]
        ok_input = (all(len(sp) >= 3 for sp in splines) and all(_finite(sp) for sp in splines)
                    and max_err > 0 and math.isfinite(max_err)
                    and all(splines[i][-1] == splines[i + 1][0] for i in range(len(splines) - 1)))
        if not ok_input:
            return
        if exc is not None:
            _cur["n"] += 1
            _report("quadratic_to_curves", "raised %s on a valid connected spline list" % type(exc).__name__,
                    splines=splines[:3], tol=max_err)
            return
        _cur["n"] += 1
        out = [[_pt(p) for p in c] for c in res]
        scale = _scale([p for sp in splines for p in sp])
        if not out:
            _report("quadratic_to_curves", "no output for non-empty input", splines=splines[:3])
            return
        if any(len(c) not in (3, 4) for c in out) or (all_cubic and any(len(c) != 4 for c in out)):
            _report("quadratic_to_curves", "output curve with wrong number of points", lengths=[len(c) for c in out], all_cubic=all_cubic)
            return
        if out[0][0] != splines[0][0] or out[-1][-1] != splines[-1][-1]:
            _report("quadratic_to_curves", "output does not start/end on the input's end points",
                    start=(out[0][0], splines[0][0]), end=(out[-1][-1], splines[-1][-1]))
            return
        for i in range(len(out) - 1):
            if out[i][-1] != out[i + 1][0]:
                _report("quadratic_to_curves", "consecutive output curves do not connect", at=i, a=out[i][-1], b=out[i + 1][0])
                return
        inq = [q for sp in splines for q in BZ.spline_quadratics(sp)]
        exceeds, measured, allow = BZ.hausdorff_exceeds([tuple(q) for q in inq], [tuple(c) for c in out], max_err, scale)
        if exceeds:
            _report("quadratic_to_curves", "output leaves the tolerance neighbourhood of the input",
                    splines=splines[:4], out=out[:6], tol=max_err, geometric_distance=measured, allowance=allow)
            return
        ncub = sum(1 for c in out if len(c) == 4)
        _cur["keys"].add("quadratic_to_curves/%s/%s/in%d/cub%d/q%d" % (fam(), _tolclass(max_err, scale), min(len(inq), 12),
                                                                       min(ncub, 8), min(len(out) - ncub, 8)))

    hooks.attach(CU, "curve_to_quadratic", post=post_c2q, name="curve_to_quadratic")
    hooks.attach(CU, "curves_to_quadratic", post=post_cs2q, name="curves_to_quadratic")
    hooks.attach(QU, "quadratic_to_curves", post=post_q2c, name="quadratic_to_curves")


def _fits_at(cubic, tol, n):
    if n < 2:
        return False
    sp = [cubic[0]]
    for i in range(n):
        pc = BZ.cubic_piece(cubic, i / n, (i + 1) / n)
        a = (pc[0][0] + (pc[1][0] - pc[0][0]) * 1.5, pc[0][1] + (pc[1][1] - pc[0][1]) * 1.5)
        b = (pc[3][0] + (pc[2][0] - pc[3][0]) * 1.5, pc[3][1] + (pc[2][1] - pc[3][1]) * 1.5)
        sp.append(BZ.lerp(a, b, i / (n - 1)))
    sp.append(cubic[3])
    return BZ.parametric_check(cubic, sp, tol)[0] is True


# ---------------------------------------------------------------- generators
FAMILIES = ["generic", "all_equal", "three_equal", "loop", "collinear", "cusp", "inflection", "elevated", "axis", "smooth_arc", "tiny_handles"]
MAGS = [1e-3, 1.0, 1e3, 1e5]


def gen_cubic(rnd, family, mag, integer=False):
    def r():
        v = rnd.uniform(-1, 1) * mag
        return float(round(v)) if integer and mag >= 1 else v

    def P():
        return (r(), r())

    if family == "generic":
        return [P(), P(), P(), P()]
    if family == "all_equal":
        p = P()
        return [p, p, p, p]
    if family == "three_equal":
        p, q = P(), P()
        k = rnd.randrange(4)
        pts = [p, p, p, p]
        pts[k] = q
        return pts
    if family == "loop":
        p = P()
        return [p, P(), P(), p]
    if family == "collinear":
        a, d = P(), P()
        ts = [rnd.uniform(-0.5, 1.5) for _ in range(2)]
        return [a] + [BZ.lerp(a, d, t) for t in ts] + [d]
    if family == "cusp":
        a, d = P(), P()
        b = (d[0] + rnd.uniform(-0.1, 0.1) * mag, d[1] + rnd.uniform(0, 1) * mag)
        c = (a[0] + rnd.uniform(-0.1, 0.1) * mag, a[1] + rnd.uniform(0, 1) * mag)
        return [a, b, c, d]
    if family == "inflection":
        a = P()
        d = (a[0] + mag * rnd.uniform(0.5, 2), a[1])
        b = (a[0] + (d[0] - a[0]) * 0.3, a[1] + mag * rnd.uniform(0.1, 1))
        c = (a[0] + (d[0] - a[0]) * 0.7, a[1] - mag * rnd.uniform(0.1, 1))
        return [a, b, c, d]
    if family == "elevated":
        q = (P(), P(), P())
        return list(BZ.elevate(q))
    if family == "axis":
        a = P()
        w, h = r(), r()
        return [a, (a[0] + w * 0.55, a[1]), (a[0] + w, a[1] + h * 0.45), (a[0] + w, a[1] + h)]
    if family == "smooth_arc":
        cx, cy, rad = r(), r(), abs(r()) + mag * 0.01
        a0 = rnd.uniform(0, 6.28)
        sweep = rnd.uniform(0.2, 2.0)
        k = 4 / 3 * math.tan(sweep / 4)
        p0 = (cx + rad * math.cos(a0), cy + rad * math.sin(a0))
        p3 = (cx + rad * math.cos(a0 + sweep), cy + rad * math.sin(a0 + sweep))
        p1 = (p0[0] - k * rad * math.sin(a0), p0[1] + k * rad * math.cos(a0))
        p2 = (p3[0] + k * rad * math.sin(a0 + sweep), p3[1] - k * rad * math.cos(a0 + sweep))
        return [p0, p1, p2, p3]
    if family == "tiny_handles":
        a, d = P(), P()
        e = mag * 1e-6
        return [a, (a[0] + rnd.uniform(-e, e), a[1] + rnd.uniform(-e, e)), (d[0] + rnd.uniform(-e, e), d[1] + rnd.uniform(-e, e)), d]
    raise ValueError(family)


def gen_tol(rnd, mag):
    return rnd.choice([1e-3, 0.1, 1.0, 10.0, mag * 3, mag * 1e-3, mag * 1e-5 if mag >= 1 else mag * 1e-2])


def gen_quadspline(rnd, mag, kind):
    def P():
        return (rnd.uniform(-1, 1) * mag, rnd.uniform(-1, 1) * mag)

    n_off = rnd.randrange(1, 9)
    if kind == "random":
        return [P() for _ in range(n_off + 2)]
    if kind == "from_cubic":
        # a smooth spline obtained from an arc through our own family construction
        c = gen_cubic(rnd, "smooth_arc", mag)
        n = rnd.randrange(2, 7)
        sp = [c[0]]
        for i in range(n):
            pc = BZ.cubic_piece(c, i / n, (i + 1) / n)
            a = (pc[0][0] + (pc[1][0] - pc[0][0]) * 1.5, pc[0][1] + (pc[1][1] - pc[0][1]) * 1.5)
            b = (pc[3][0] + (pc[2][0] - pc[3][0]) * 1.5, pc[3][1] + (pc[2][1] - pc[3][1]) * 1.5)
            sp.append(BZ.lerp(a, b, i / (n - 1)))
        sp.append(c[3])
        return sp
    if kind == "integer":
        return [(float(round(x)), float(round(y))) for x, y in [P() for _ in range(n_off + 2)]]
    if kind == "collinear":
        a, d = P(), P()
        return [a] + [BZ.lerp(a, d, (k + 1) / (n_off + 1)) for k in range(n_off)] + [d]
    if kind == "degenerate":
        p = P()
        return [p] * (n_off + 2)
    if kind == "uneven_cubic":
        # quadratics of very different lengths that all approximate one smooth cubic
        # (pieces at uneven parameters): merge candidates are feasible and the long last
        # piece carries most of the error
        c = gen_cubic(rnd, rnd.choice(["smooth_arc", "axis", "inflection"]), mag)
        ts = [0.0]
        gap = rnd.choice([0.03, 0.06, 0.1])
        while ts[-1] + gap < 0.9 and len(ts) < 6:
            ts.append(ts[-1] + gap)
            gap *= rnd.choice([2.0, 3.0, 4.0])
        ts.append(1.0)
        if rnd.random() < 0.5:
            ts = [1 - t for t in reversed(ts)]
        pts = [c[0]]
        for t0, t1 in zip(ts, ts[1:]):
            pc = BZ.cubic_piece(c, t0, t1)
            a = (pc[0][0] + (pc[1][0] - pc[0][0]) * 1.5, pc[0][1] + (pc[1][1] - pc[0][1]) * 1.5)
            b = (pc[3][0] + (pc[2][0] - pc[3][0]) * 1.5, pc[3][1] + (pc[2][1] - pc[3][1]) * 1.5)
            pts.append(((a[0] + b[0]) / 2, (a[1] + b[1]) / 2))
            pts.append(pc[3])
        if mag >= 100:
            pts = [(float(round(x)), float(round(y))) for x, y in pts]
        return ("chain", pts)
    if kind == "uneven":
        # smooth-ish spline whose segments grow geometrically: a long last quadratic after short ones
        x, y = 0.0, 0.0
        ang = rnd.uniform(0, 6.28)
        step = mag * 0.01
        pts = [(x, y)]
        for _k in range(n_off + 1):
            ang += rnd.uniform(-0.35, 0.35)
            x += step * math.cos(ang)
            y += step * math.sin(ang)
            pts.append((float(round(x)), float(round(y))) if mag >= 100 else (x, y))
            step *= rnd.choice([1.5, 2.5, 4.0])
        return pts
    raise ValueError(kind)


# ---------------------------------------------------------------- cases
def cases(tier, seed):
    T = tier == "thorough"
    cs = []

    def add(kind, **kw):
        kw["kind"] = kind
        kw["id"] = "%s:%s" % (kind, ",".join("%s=%s" % (k, v) for k, v in sorted(kw.items()) if k != "kind"))
        kw["seed"] = seed
        cs.append(kw)

    per = 400 if T else 110
    for fam in FAMILIES:
        for mag in MAGS:
            add("single", family=fam, mag=mag, n=per)
    for fam in ["generic", "inflection", "smooth_arc", "cusp", "axis", "collinear", "elevated"]:
        for mag in (1.0, 1e3):
            add("multi", family=fam, mag=mag, n=200 if T else 60)
    for kind in ["random", "from_cubic", "integer", "collinear", "degenerate", "uneven", "uneven_cubic"]:
        for mag in (1.0, 1e3, 1e5):
            add("reverse", skind=kind, mag=mag, n=500 if T else 150)
    for part in range(8 if T else 3):
        add("pens", part=part, n=150 if T else 40)
    for part in range(4 if T else 2):
        add("glyphs", part=part, n=60 if T else 25)
    for part in range(8 if T else 3):
        add("pens_e2e", part=part, n=120 if T else 40)
    for part in range(8 if T else 2):
        add("pens_chain", part=part, n=4000 if T else 1500)
    for part in range(6 if T else 2):
        add("multipen_degenerate", part=part, n=150 if T else 60)
    for part in range(6 if T else 2):
        add("fonts", part=part, n=60 if T else 20)
    add("stored")
    if T:
        for sp in ['cu2qu', 'qu2cu', 'pens/cu2quPen_test.py', 'pens/qu2cuPen_test.py']:
            add("suite", path=sp)
    return cs


def run_case(case, ctx):
    _cur["keys"], _cur["n"], _cur["geo"] = set(), 0, 0
    _cur["ctxinfo"] = {"family": case.get("family") or case.get("skind") or case["kind"]}
    rnd = random.Random("%s/%s" % (case["id"], case["seed"]))
    globals()["drv_" + case["kind"]](case, rnd, ctx)
    ctx.judged(_cur["n"])
    ctx.note("geometric_stage_evaluations", _cur["geo"])
    for k in _cur["keys"]:
        ctx.nontrivial(k)
    if ctx.sample is None:
        ctx.sample = {"case": {k: v for k, v in case.items() if k != "seed"}, "monitor_evaluations": _cur["n"],
                      "classes": sorted(_cur["keys"])[:10]}


def _try(fn, *a, **kw):
    from fontTools.cu2qu.errors import Error as Cu2QuError
    try:
        return fn(*a, **kw)
    except Cu2QuError:
        return None


def drv_single(case, rnd, ctx):
    from fontTools.cu2qu import curve_to_quadratic
    for i in range(case["n"]):
        c = gen_cubic(rnd, case["family"], case["mag"], integer=rnd.random() < 0.4)
        tol = gen_tol(rnd, case["mag"])
        allq = rnd.random() < 0.75
        r = _try(curve_to_quadratic, c, tol, allq)
        if i == 0:
            ctx.sample = {"cubic": c, "tolerance": tol, "all_quadratic": allq, "result_points": None if r is None else len(r)}
        if rnd.random() < 0.15:
            _try(curve_to_quadratic, [complex(*p) for p in c] if False else c, tol * 0.01, True)


def drv_multi(case, rnd, ctx):
    from fontTools.cu2qu import curves_to_quadratic
    for i in range(case["n"]):
        base = gen_cubic(rnd, case["family"], case["mag"], integer=rnd.random() < 0.4)
        m = rnd.randrange(2, 7)
        amp = case["mag"] * rnd.choice([0.01, 0.1, 0.5])
        curves = [base] + [[(x + rnd.uniform(-amp, amp), y + rnd.uniform(-amp, amp)) for x, y in base] for _ in range(m - 1)]
        if rnd.random() < 0.2:
            curves[rnd.randrange(m)] = gen_cubic(rnd, rnd.choice(["collinear", "three_equal", "all_equal"]), case["mag"])
        if m >= 3 and rnd.random() < 0.35:
            # identical masters (very common in real designspaces: a glyph that does not
            # vary along one axis), in every relative position
            a, b = rnd.sample(range(m), 2)
            curves[b] = list(curves[a])
        tols = [gen_tol(rnd, case["mag"]) if rnd.random() < 0.5 else 1.0 for _ in range(m)]
        if rnd.random() < 0.5:
            tols = [tols[0]] * m
        allq = rnd.random() < 0.8
        r = _try(curves_to_quadratic, curves, tols, allq)
        if i == 0:
            ctx.sample = {"curves": curves[:3], "tolerances": tols, "all_quadratic": allq,
                          "result_lengths": None if r is None else [len(s) for s in r]}


def drv_reverse(case, rnd, ctx):
    from fontTools.qu2cu import quadratic_to_curves
    for i in range(case["n"]):
        nsp = rnd.randrange(1, 5)
        splines = []
        last = None
        chain = None
        if case["skind"] == "uneven_cubic":
            chain = gen_quadspline(rnd, case["mag"], "uneven_cubic")[1]
            nsp = 0
            for k in range(0, len(chain) - 2, 2):
                splines.append([chain[k], chain[k + 1], chain[k + 2]])
        for _ in range(nsp):
            sp = gen_quadspline(rnd, case["mag"], case["skind"])
            if last is not None:
                dx, dy = last[0] - sp[0][0], last[1] - sp[0][1]
                sp = [(x + dx, y + dy) for x, y in sp]
                sp[0] = last
            splines.append(sp)
            last = sp[-1]
        tol = rnd.choice([1e-3, 0.1, 0.5, 1.0, 10.0, case["mag"] * 0.01, case["mag"]])
        if chain is not None:
            tol = rnd.choice([0.5, 1.0, 2.0, 3.0, 5.0]) * case["mag"] / 1000.0
        allc = rnd.random() < 0.4
        try:
            r = quadratic_to_curves(splines, tol, allc)
        except Exception:
            r = None   # judged by the monitor (valid input must not raise)
        if i == 0:
            ctx.sample = {"splines": splines[:2], "tolerance": tol, "all_cubic": allc,
                          "result": None if r is None else [len(c) for c in r]}


def _random_contours(rnd, mag, cubic=True, closed=None, super_bezier=True):
    """A glyph-like outline as pen records."""
    rec = []
    for _ in range(rnd.randrange(1, 4)):
        def P():
            return (float(round(rnd.uniform(-1, 1) * mag)), float(round(rnd.uniform(-1, 1) * mag)))
        rec.append(("moveTo", (P(),)))
        for _s in range(rnd.randrange(1, 6)):
            k = rnd.random()
            if k < 0.3:
                rec.append(("lineTo", (P(),)))
            elif cubic:
                rec.append(("curveTo", tuple(P() for _i in range(rnd.choice([3, 3, 3, 4, 5]) if super_bezier else 3))))
            else:
                rec.append(("qCurveTo", tuple(P() for _i in range(rnd.randrange(2, 6)))))
        rec.append(("closePath", ()) if (closed if closed is not None else rnd.random() < 0.8) else ("endPath", ()))
    return rec


def _structure(rec):
    return [(op, len(args)) for op, args in rec]


def drv_pens(case, rnd, ctx):
    from fontTools.pens.cu2quPen import Cu2QuPen, Cu2QuPointPen, Cu2QuMultiPen
    from fontTools.pens.qu2cuPen import Qu2CuPen
    from fontTools.pens.recordingPen import RecordingPen, RecordingPointPen
    from fontTools.pens.pointPen import SegmentToPointPen
    for i in range(case["n"]):
        mag = rnd.choice([100.0, 1000.0])
        rec = _random_contours(rnd, mag)
        tol = rnd.choice([0.1, 1.0, 5.0])
        out = RecordingPen()
        pen = Cu2QuPen(out, tol, reverse_direction=rnd.random() < 0.3, all_quadratic=rnd.random() < 0.7)
        for op, args in rec:
            _try(getattr(pen, op), *args)
        out2 = RecordingPointPen()
        ppen = Cu2QuPointPen(out2, tol, reverse_direction=rnd.random() < 0.3, all_quadratic=rnd.random() < 0.7)
        sp = SegmentToPointPen(ppen)
        try:
            for op, args in rec:
                getattr(sp, op)(*args)
        except Exception as e:
            from fontTools.cu2qu.errors import Error as Cu2QuError
            if not isinstance(e, Cu2QuError):
                raise
        # masters through the multi pen: structure of every output must be identical
        m = rnd.randrange(2, 5)
        amp = mag * 0.05
        masters = [rec] + [[(op, tuple((x + rnd.uniform(-amp, amp), y + rnd.uniform(-amp, amp)) for x, y in args)) for op, args in rec]
                           for _ in range(m - 1)]
        outs = [RecordingPen() for _ in range(m)]
        mp = Cu2QuMultiPen(outs, tol)
        ok = True
        for k in range(len(rec)):
            op = rec[k][0]
            try:
                if op in ("closePath", "endPath"):
                    getattr(mp, op)()
                elif op in ("moveTo", "lineTo"):
                    getattr(mp, op)([mrec[k][1] for mrec in masters])
                else:
                    getattr(mp, op)([mrec[k][1] for mrec in masters])
            except Exception as e:
                from fontTools.cu2qu.errors import Error as Cu2QuError
                if isinstance(e, Cu2QuError):
                    ok = False
                    break
                raise
        if ok:
            ctx.judged()
            structs = {tuple(_structure(o.value)) for o in outs}
            if len(structs) != 1:
                ctx.violation({"kind": "curve", "func": "Cu2QuMultiPen", "what": "masters converted together have different structures"},
                              "Cu2QuMultiPen outputs differ in structure", {"input": rec, "structures": [list(s) for s in structs][:3]})
            else:
                ctx.nontrivial("Cu2QuMultiPen/m%d/ops%d" % (m, min(len(rec), 12)))
        # quadratic outline back to cubic through the pen
        qrec = _random_contours(rnd, mag, cubic=False)
        out3 = RecordingPen()
        qp = Qu2CuPen(out3, tol, all_cubic=rnd.random() < 0.5, reverse_direction=rnd.random() < 0.3)
        for op, args in qrec:
            getattr(qp, op)(*args)
        if i == 0:
            ctx.sample = {"pen_input": rec[:6], "cu2qu_out_ops": [op for op, _ in out.value][:12], "qu2cu_out_ops": [op for op, _ in out3.value][:12]}


class _Glyph:
    """Minimal glyph object with the drawing API cu2qu.ufo needs."""

    def __init__(self, rec):
        self.rec = list(rec)
        self.name = "g"

    def __len__(self):
        return sum(1 for op, _ in self.rec if op == "moveTo")

    def draw(self, pen):
        for op, args in self.rec:
            getattr(pen, op)(*args)

    def drawPoints(self, pen):
        from fontTools.pens.pointPen import SegmentToPointPen
        self.draw(SegmentToPointPen(pen))

    def clearContours(self):
        self.rec = []

    def getPen(self):
        outer = self

        class P:
            def __getattr__(self, op):
                def f(*args):
                    outer.rec.append((op, args))
                return f
        return P()

    def getPointPen(self):
        from fontTools.pens.pointPen import PointToSegmentPen
        return PointToSegmentPen(self.getPen())


def _segs_of(rec):
    """pen record -> list of control-point tuples (independent canonical form)."""
    from vmon.oracle import geom
    out = []
    for c in geom.canon(rec):
        for sg in c["segs"]:
            out.append(tuple(sg[1:]))
    return out


def drv_glyphs(case, rnd, ctx):
    from fontTools.cu2qu.ufo import glyphs_to_quadratic
    from fontTools.cu2qu.errors import Error as Cu2QuError
    for i in range(case["n"]):
        mag = 1000.0
        rec = _random_contours(rnd, mag, closed=True, super_bezier=False)
        m = rnd.randrange(2, 5)
        amp = mag * 0.04
        recs = [rec] + [[(op, tuple((float(round(x + rnd.uniform(-amp, amp))), float(round(y + rnd.uniform(-amp, amp)))) for x, y in args))
                         for op, args in rec] for _ in range(m - 1)]
        # empty glyphs (sparse masters) in any position are legal and are passed through
        empties = set()
        if rnd.random() < 0.4:
            for k in range(m):
                if rnd.random() < 0.4:
                    empties.add(k)
            if len(empties) == m:
                empties.discard(rnd.randrange(m))
        glyphs = [_Glyph([] if k in empties else recs[k]) for k in range(m)]
        before = [list(g.rec) for g in glyphs]
        if rnd.random() < 0.5:
            tols = [rnd.choice([0.5, 1.0, 3.0, 8.0]) for _ in range(m)]   # one tolerance per master
            kw = {"max_err": list(tols)}
        else:
            t = rnd.choice([0.5, 1.0, 3.0])
            tols = [t] * m
            kw = {"max_err": t}
        try:
            glyphs_to_quadratic(glyphs, reverse_direction=rnd.random() < 0.3, **kw)
        except Cu2QuError:
            ctx.skip("cu2qu error (incompatible or no approximation)")
            continue
        ctx.judged()
        live = [k for k in range(m) if k not in empties]
        structs = {tuple(_structure(glyphs[k].rec)) for k in live}
        if len(structs) != 1:
            ctx.violation({"kind": "curve", "func": "glyphs_to_quadratic", "what": "masters converted together have different structures"},
                          "glyphs_to_quadratic outputs differ in structure", {"input": before[live[0]], "structures": [list(s) for s in structs][:3]})
            continue
        if any(op == "curveTo" for k in live for op, _ in glyphs[k].rec):
            ctx.violation({"kind": "curve", "func": "glyphs_to_quadratic", "what": "cubic segment left in all-quadratic output"},
                          "glyphs_to_quadratic left a curveTo", {"input": before[live[0]]})
            continue
        bad = False
        for k in range(m):
            if k in empties:
                if glyphs[k].rec:
                    ctx.violation({"kind": "curve", "func": "glyphs_to_quadratic", "what": "empty glyph was modified"},
                                  "glyphs_to_quadratic changed an empty master glyph", {"master": k})
                    bad = True
                continue
            # every master within ITS OWN tolerance of its input outline (parameter-free distance)
            ctx.judged()
            a, b = _segs_of(before[k]), _segs_of(glyphs[k].rec)
            if a and b:
                exceeds, measured, allow = BZ.hausdorff_exceeds(a, b, tols[k], mag)
                if exceeds:
                    ctx.violation({"kind": "curve", "func": "glyphs_to_quadratic", "what": "a master leaves the tolerance neighbourhood of its input outline"},
                                  "glyphs_to_quadratic: master %d deviates %.3f with tolerance %s" % (k, measured, tols[k]),
                                  {"master": k, "tolerances": tols, "empty_masters": sorted(empties), "input": before[k][:8], "measured_lower_bound": measured})
                    bad = True
        if not bad:
            ctx.nontrivial("glyphs_to_quadratic/m%d/ops%d/empty%d/pertol%d" % (m, min(len(rec), 12), len(empties), int("max_err" in kw and isinstance(kw["max_err"], list))))
        if i == 0:
            ctx.sample = {"glyph_input": before[live[0]][:6], "masters": m, "empty_masters": sorted(empties), "tolerances": tols,
                          "output_ops": [op for op, _ in glyphs[live[0]].rec][:12]}


def _chain_contours(rnd, mag, cubic=True):
    """Outlines made of chains of gentle consecutive curves (the shape of real glyph outlines: short smooth
    segments, occasionally a line), the input class on which pen-level state (current point, pending
    segments) decides the result."""
    import math
    rec = []
    for _ in range(rnd.randrange(1, 3)):
        x, y = rnd.uniform(-mag, mag) * 0.5, rnd.uniform(-mag, mag) * 0.5
        ang = rnd.uniform(0, 2 * math.pi)
        step = rnd.choice([0.01, 0.03, 0.1, 0.3]) * mag
        rec.append(("moveTo", ((float(round(x, 1)), float(round(y, 1))),)))
        for _s in range(rnd.randrange(2, 9)):
            k = rnd.random()
            if k < 0.15:
                ang += rnd.uniform(-1, 1)
                x, y = x + step * math.cos(ang), y + step * math.sin(ang)
                rec.append(("lineTo", ((float(round(x, 1)), float(round(y, 1))),)))
                continue
            pts = []
            for _i in range(3 if cubic else rnd.randrange(2, 5)):
                ang += rnd.uniform(-0.7, 0.7) * rnd.choice([0.2, 1.0, 1.6])
                st = step * rnd.uniform(0.3, 1.2) * (rnd.choice([1, 1, 1, 3]) if cubic else 1)
                x, y = x + st * math.cos(ang), y + st * math.sin(ang)
                pts.append((float(round(x, 1)), float(round(y, 1))))
            rec.append(("curveTo" if cubic else "qCurveTo", tuple(pts)))
        rec.append(("closePath", ()) if rnd.random() < 0.7 else ("endPath", ()))
    _chain_contours.last_step = step
    return rec


def _tip_contours(rnd, mag):
    """Quadratic outlines built junction by junction: at every on-curve point the outgoing handle is related to the
    incoming one as smooth continuation (the on-curve point is then implied in TrueType), mirror image about the
    horizontal or vertical through the point (lancet / heart / teardrop tips), the same point (cusp), or unrelated."""
    rec = []
    for _ in range(rnd.randrange(1, 3)):
        x, y = rnd.uniform(-0.5, 0.5) * mag, rnd.uniform(-0.5, 0.5) * mag
        rec.append(("moveTo", ((float(round(x)), float(round(y))),)))
        hin = None
        for _s in range(rnd.randrange(2, 7)):
            step = rnd.choice([0.05, 0.1, 0.2]) * mag
            rel = rnd.choice(["smooth", "mirror_h", "mirror_v", "same", "free"]) if hin is not None else "free"
            dx, dy = (hin[0] - x, hin[1] - y) if hin is not None else (0.0, 0.0)
            if rel == "smooth":
                hx, hy = x - dx, y - dy
            elif rel == "mirror_h":
                hx, hy = x + dx, y - dy
            elif rel == "mirror_v":
                hx, hy = x - dx, y + dy
            elif rel == "same":
                hx, hy = x + dx, y + dy
            else:
                hx, hy = x + rnd.uniform(-1, 1) * step, y + rnd.uniform(-1, 1) * step
            nx, ny = hx + rnd.uniform(-1, 1) * step, hy + rnd.uniform(-1, 1) * step
            hx, hy, nx, ny = float(round(hx)), float(round(hy)), float(round(nx)), float(round(ny))
            rec.append(("qCurveTo", ((hx, hy), (nx, ny))))
            hin = (hx, hy)
            x, y = nx, ny
        rec.append(("closePath", ()) if rnd.random() < 0.7 else ("endPath", ()))
    return rec


def _judge_outline(ctx, func, opts, before, after, tol, mag, extra=None):
    """End-to-end: the converted outline stays inside the tolerance neighbourhood of the input outline, and vice versa."""
    a, b = _segs_of(before), _segs_of(after)
    if not a or not b:
        return True
    ctx.judged()
    exceeds, measured, allow = BZ.hausdorff_exceeds(a, b, tol, mag)
    if exceeds:
        w = {"options": opts, "tolerance": tol, "input": before[:14], "output": after[:14], "measured_lower_bound": measured}
        if extra:
            w.update(extra)
        ctx.violation({"kind": "curve", "func": func, "what": "converted outline leaves the tolerance neighbourhood of its input"},
                      "%s %s: outline deviates %.3f with tolerance %s" % (func, opts, measured, tol), w)
        return False
    return True


def _judge_aligned(ctx, func, opts, before, after, tol, mag):
    """Per-segment judgement when the output has one drawing operation per input operation (no direction
    reversal, no super-beziers): every output segment starts where the input segment starts, ends where it ends
    and stays within the tolerance of it.  -> True/False, or None when the records do not align (caller falls back
    to the whole-outline comparison)."""
    if len(before) != len(after) or any((a[0] in ("moveTo", "closePath", "endPath", "lineTo")) != (b[0] in ("moveTo", "closePath", "endPath", "lineTo"))
                                        or (a[0] in ("moveTo", "closePath", "endPath") and a[0] != b[0]) for a, b in zip(before, after)):
        return None
    cur_in = cur_out = None
    ok = True
    for (op_a, args_a), (op_b, args_b) in zip(before, after):
        if op_a in ("closePath", "endPath"):
            continue
        if op_a in ("moveTo", "lineTo"):
            if op_b != op_a or tuple(args_a[-1]) != tuple(args_b[-1]):
                return None
            cur_in, cur_out = args_a[-1], args_b[-1]
            continue
        if args_b[-1] is None or args_a[-1] is None:
            return None
        ctx.judged()
        a = _segs_of([("moveTo", (cur_in,)), (op_a, args_a), ("endPath", ())])
        b = _segs_of([("moveTo", (cur_out,)), (op_b, args_b), ("endPath", ())])
        end_ok = abs(args_a[-1][0] - args_b[-1][0]) <= 1e-9 * mag and abs(args_a[-1][1] - args_b[-1][1]) <= 1e-9 * mag
        exceeds, measured, allow = BZ.hausdorff_exceeds(a, b, tol, mag) if a and b else (False, 0.0, 0.0)
        if exceeds or not end_ok:
            ctx.violation({"kind": "curve", "func": func, "what": "a converted segment leaves the tolerance neighbourhood of its input segment" if end_ok else "a converted segment does not end at the input segment's end point"},
                          "%s %s: segment deviates %.3f with tolerance %s" % (func, opts, measured, tol),
                          {"options": opts, "tolerance": tol, "input_segment": [cur_in] + list(args_a), "output_segment": [cur_out] + list(args_b),
                           "input": before[:14], "measured_lower_bound": measured})
            ok = False
            break
        cur_in, cur_out = args_a[-1], args_b[-1]
    return ok


def drv_pens_chain(case, rnd, ctx):
    """Many chains of consecutive curves through Cu2QuPen, judged segment by segment (cheap, so thousands of
    chains per case): mixed cubic/quadratic output keeps pen state between segments that whole-glyph tests with
    one curve per contour never exercise."""
    from fontTools.pens.cu2quPen import Cu2QuPen
    from fontTools.pens.recordingPen import RecordingPen
    from fontTools.cu2qu.errors import Error as Cu2QuError
    for i in range(case["n"]):
        mag = rnd.choice([100.0, 1000.0, 1000.0])
        rec = _chain_contours(rnd, mag)
        step = _chain_contours.last_step
        tol = step * rnd.choice([0.01, 0.03, 0.08, 0.2]) if rnd.random() < 0.6 else rnd.choice([0.25, 1.0, 2.0, 4.0])
        allq = rnd.random() < 0.3
        out = RecordingPen()
        pen = Cu2QuPen(out, tol, all_quadratic=allq)
        try:
            for op, args in rec:
                getattr(pen, op)(*args)
        except Cu2QuError:
            ctx.skip("cu2qu error")
            continue
        v = _judge_aligned(ctx, "Cu2QuPen", "all_quadratic=%s" % allq, rec, out.value, tol, mag)
        if v is None:
            ctx.violation({"kind": "curve", "func": "Cu2QuPen", "what": "output operations do not correspond one to one to the input operations"},
                          "Cu2QuPen changed the structure of the outline", {"input": rec[:12], "output": out.value[:12]})
        elif v:
            kept = sum(1 for op, _ in out.value if op == "curveTo")
            quads = sum(1 for op, _ in out.value if op == "qCurveTo")
            ctx.nontrivial("Cu2QuPen/chain/allq%d/kept%d/quads%d" % (allq, min(kept, 6), min(quads, 6)))
        if i == 0:
            ctx.sample = {"chain_input": rec[:6], "tolerance": tol, "out_ops": [op for op, _ in out.value][:12]}


def drv_multipen_degenerate(case, rnd, ctx):
    """Masters that are compatible as drawn (same operations) but in which, in SOME masters only, a point
    coincides with its neighbour or with the contour's start (collapsed segments are ordinary in condensed or
    light masters).  Through Cu2QuMultiPen, with and without reverse_direction, every master must come out with
    the same structure, and each within tolerance of its own input."""
    from fontTools.pens.cu2quPen import Cu2QuMultiPen
    from fontTools.pens.recordingPen import RecordingPen
    from fontTools.cu2qu.errors import Error as Cu2QuError
    for i in range(case["n"]):
        mag = 1000.0
        rec = _chain_contours(rnd, mag) if rnd.random() < 0.5 else _random_contours(rnd, mag, closed=True, super_bezier=False)
        # make sure lines occur next to the start and the end of contours
        rec2 = []
        for op, args in rec:
            rec2.append((op, args))
            if op == "moveTo" and rnd.random() < 0.7:
                x, y = args[0]
                rec2.append(("lineTo", ((x + rnd.choice([30.0, 80.0]), y + rnd.choice([0.0, 40.0])),)))
        rec = []
        for k, (op, args) in enumerate(rec2):
            if op in ("closePath", "endPath") and rnd.random() < 0.7 and rec2[k - 1][0] != "moveTo":
                x, y = rec2[k - 1][1][-1]
                rec.append(("lineTo", ((x + rnd.choice([-25.0, 60.0]), y + rnd.choice([15.0, -35.0])),)))
            rec.append((op, args))
        m = rnd.randrange(2, 4)
        masters = [[(op, tuple(args)) for op, args in rec] for _ in range(m)]
        kinds = set()
        for mi in range(1, m) if rnd.random() < 0.8 else range(m):
            mrec = masters[mi]
            starts = [k for k, (op, _a) in enumerate(mrec) if op == "moveTo"]
            for _c in range(rnd.randrange(1, 3)):
                lines = [k for k, (op, _a) in enumerate(mrec) if op == "lineTo"]
                if not lines:
                    break
                k = rnd.choice(lines)
                st = max(s0 for s0 in starts if s0 < k)
                how = rnd.choice(["on_previous", "on_start"])
                if how == "on_previous":
                    target = mrec[k - 1][1][-1]
                    kinds.add("first" if k - 1 == st else "mid")
                else:
                    target = mrec[st][1][-1]
                    kinds.add("closing" if mrec[k + 1][0] in ("closePath", "endPath") else "to_start")
                mrec[k] = ("lineTo", (target,))
        tol = rnd.choice([0.5, 1.0, 3.0])
        for rev in (False, True):
            outs = [RecordingPen() for _ in range(m)]
            mp = Cu2QuMultiPen(outs, tol, reverse_direction=rev)
            try:
                with ctx.lib("Cu2QuMultiPen"):
                    for k in range(len(rec)):
                        op = rec[k][0]
                        if op in ("closePath", "endPath"):
                            getattr(mp, op)()
                        else:
                            getattr(mp, op)([mrec[k][1] for mrec in masters])
            except Cu2QuError:
                ctx.skip("cu2qu error")
                continue
            ctx.judged()
            structs = [tuple(_structure(o.value)) for o in outs]
            if len(set(structs)) != 1:
                # cause, for the known-finding key: with reverse_direction, does the last on-curve point of a closed
                # contour coincide with its first in some masters but not in others?
                cause = "other"
                if rev:
                    for ci in range(sum(1 for op, _a in rec if op == "moveTo")):
                        flags = set()
                        for mrec in masters:
                            conts, cur = [], None
                            for op, args in mrec:
                                if op == "moveTo":
                                    cur = [args[-1]]
                                    conts.append(cur)
                                elif op in ("closePath", "endPath"):
                                    cur.append(op)
                                else:
                                    cur.append(args[-1])
                            c = conts[ci]
                            if c[-1] == "closePath" and len(c) > 2:
                                flags.add(c[-2] == c[0])
                        if len(flags) == 2:
                            cause = "reverse+closing-point-coincides-in-some-masters"
                    if cause != "other":
                        # does that coincidence explain the whole difference?  Move every closing point that sits on its
                        # start a little and convert again: if the structures still differ, something else is wrong too
                        moved = []
                        for mrec in masters:
                            mr, start = [], None
                            for k, (op, args) in enumerate(mrec):
                                if op == "moveTo":
                                    start = args[-1]
                                if op == "lineTo" and mrec[k + 1][0] == "closePath" and args[-1] == start:
                                    args = ((start[0] + 7.0, start[1] + 11.0),)
                                mr.append((op, args))
                            moved.append(mr)
                        outs2 = [RecordingPen() for _ in range(m)]
                        mp2 = Cu2QuMultiPen(outs2, tol, reverse_direction=rev)
                        try:
                            for k in range(len(rec)):
                                op = rec[k][0]
                                if op in ("closePath", "endPath"):
                                    getattr(mp2, op)()
                                else:
                                    getattr(mp2, op)([mr[k][1] for mr in moved])
                            if len({tuple(_structure(o.value)) for o in outs2}) != 1:
                                cause = "other"
                        except Exception:
                            pass
                ctx.violation({"kind": "curve", "func": "Cu2QuMultiPen", "what": "masters converted together have different structures", "cause": cause},
                              "Cu2QuMultiPen(reverse_direction=%s): compatible masters come out with different structures" % rev,
                              {"reverse_direction": rev, "collapsed": sorted(kinds), "masters": [mr[:10] for mr in masters],
                               "structures": [list(st) for st in structs][:3]})
                continue
            okm = True
            for k in range(m):
                okm = _judge_outline(ctx, "Cu2QuMultiPen", "degenerate master %d of %d reverse=%s" % (k, m, rev), masters[k], outs[k].value, tol, mag) and okm
            if okm:
                ctx.nontrivial("Cu2QuMultiPen/degenerate/rev%d/%s" % (rev, "+".join(sorted(kinds)) or "none"))
        if i == 0:
            ctx.sample = {"masters": m, "collapsed": sorted(kinds), "input_ops": [op for op, _ in rec][:14]}


def drv_pens_e2e(case, rnd, ctx):
    """Whole outlines through the converting pens with every option; the oracle compares the drawn input with the
    recorded output geometrically (the per-call monitors cannot see a pen handing the wrong curve to the converter)."""
    from fontTools.pens.cu2quPen import Cu2QuPen, Cu2QuPointPen, Cu2QuMultiPen
    from fontTools.pens.qu2cuPen import Qu2CuPen
    from fontTools.pens.recordingPen import RecordingPen, RecordingPointPen
    from fontTools.pens.pointPen import SegmentToPointPen, PointToSegmentPen
    from fontTools.cu2qu.errors import Error as Cu2QuError
    for i in range(case["n"]):
        mag = rnd.choice([100.0, 1000.0])
        if rnd.random() < 0.75:
            rec = _chain_contours(rnd, mag)
            # tolerance classes relative to the segment size too: coarse tolerances are where a segment taken from a
            # wrong start point can still "fit"
            tol = _chain_contours.last_step * rnd.choice([0.01, 0.03, 0.08, 0.2]) if rnd.random() < 0.6 else rnd.choice([0.25, 1.0, 2.0, 4.0])
        else:
            rec = _random_contours(rnd, mag, super_bezier=False)
            tol = rnd.choice([0.25, 1.0, 2.0, 4.0]) * (mag / 1000.0 if rnd.random() < 0.5 else 1.0)
        for allq in (True, False):
            rev = rnd.random() < 0.3
            opts = "all_quadratic=%s reverse=%s" % (allq, rev)
            out = RecordingPen()
            pen = Cu2QuPen(out, tol, reverse_direction=rev, all_quadratic=allq)
            try:
                for op, args in rec:
                    getattr(pen, op)(*args)
            except Cu2QuError:
                ctx.skip("cu2qu error")
                continue
            if allq and any(op == "curveTo" for op, _ in out.value):
                ctx.violation({"kind": "curve", "func": "Cu2QuPen", "what": "cubic segment left in all-quadratic output"},
                              "Cu2QuPen left a curveTo", {"input": rec[:10]})
            verdict = None if rev else _judge_aligned(ctx, "Cu2QuPen", opts, rec, out.value, tol, mag)
            if verdict is None:
                verdict = _judge_outline(ctx, "Cu2QuPen", opts, rec, out.value, tol, mag)
            if verdict:
                kept = sum(1 for op, _ in out.value if op == "curveTo")
                ctx.nontrivial("Cu2QuPen/allq%d/kept%d/ops%d" % (allq, min(kept, 3), min(len(rec), 12)))
            out2 = RecordingPen()
            ppen = Cu2QuPointPen(PointToSegmentPen(out2), tol, reverse_direction=rev, all_quadratic=allq)
            try:
                sp = SegmentToPointPen(ppen)
                for op, args in rec:
                    getattr(sp, op)(*args)
            except Cu2QuError:
                continue
            if _judge_outline(ctx, "Cu2QuPointPen", opts, rec, out2.value, tol, mag):
                ctx.nontrivial("Cu2QuPointPen/allq%d/ops%d" % (allq, min(len(rec), 12)))
        # masters through the multi pen, each judged against its own input
        m = rnd.randrange(2, 4)
        amp = mag * 0.01
        masters = [rec] + [[(op, tuple((round(x + rnd.uniform(-amp, amp), 1), round(y + rnd.uniform(-amp, amp), 1)) for x, y in args)) for op, args in rec]
                           for _ in range(m - 1)]
        outs = [RecordingPen() for _ in range(m)]
        mp = Cu2QuMultiPen(outs, tol, reverse_direction=rnd.random() < 0.3)
        try:
            for k in range(len(rec)):
                op = rec[k][0]
                if op in ("closePath", "endPath"):
                    getattr(mp, op)()
                else:
                    getattr(mp, op)([mrec[k][1] for mrec in masters])
        except Cu2QuError:
            outs = None
        if outs:
            okm = True
            for k in range(m):
                okm = _judge_outline(ctx, "Cu2QuMultiPen", "master %d of %d" % (k, m), masters[k], outs[k].value, tol, mag) and okm
            if okm:
                ctx.nontrivial("Cu2QuMultiPen/e2e/m%d" % m)
        # quadratic outline to cubic
        qk = rnd.random()
        qrec = _tip_contours(rnd, mag) if qk < 0.4 else _chain_contours(rnd, mag, cubic=False) if qk < 0.8 else _random_contours(rnd, mag, cubic=False)
        allc = rnd.random() < 0.5
        revq = rnd.random() < 0.3
        out3 = RecordingPen()
        qp = Qu2CuPen(out3, tol, all_cubic=allc, reverse_direction=revq)
        for op, args in qrec:
            getattr(qp, op)(*args)
        if allc and any(op == "qCurveTo" for op, _ in out3.value):
            ctx.violation({"kind": "curve", "func": "Qu2CuPen", "what": "quadratic segment left in all-cubic output"},
                          "Qu2CuPen left a qCurveTo", {"input": qrec[:10]})
        if _judge_outline(ctx, "Qu2CuPen", "all_cubic=%s reverse=%s" % (allc, revq), qrec, out3.value, tol, mag):
            ctx.nontrivial("Qu2CuPen/allc%d/ops%d" % (allc, min(len(qrec), 12)))
        if i == 0:
            ctx.sample = {"pen_input": rec[:6], "tolerance": tol, "qu2cu_out_ops": [op for op, _ in out3.value][:12]}


class _Font:
    """Minimal font object with the API cu2qu.ufo.fonts_to_quadratic needs."""

    def __init__(self, upem, glyphs):
        self.lib = {}
        self.info = type("Info", (), {"unitsPerEm": upem})()
        self._g = glyphs
        for n, g in glyphs.items():
            g.name = n

    def keys(self):
        return self._g.keys()

    def __contains__(self, n):
        return n in self._g

    def __getitem__(self, n):
        return self._g[n]


def drv_fonts(case, rnd, ctx):
    """fonts_to_quadratic over masters with their own units-per-em, sparse glyph sets and every way of giving the
    tolerance; each master's glyph must stay within ITS tolerance (max_err_em x its UPEM, or its max_err)."""
    from fontTools.cu2qu.ufo import fonts_to_quadratic, DEFAULT_MAX_ERR
    from fontTools.cu2qu.errors import Error as Cu2QuError
    for i in range(case["n"]):
        m = rnd.randrange(2, 4)
        upems = [rnd.choice([250, 1000, 1000, 2048, 4096]) for _ in range(m)]
        if rnd.random() < 0.4:
            upems = [upems[0]] * m
        names = ["g%d" % k for k in range(rnd.randrange(1, 4))]
        base = {n: _chain_contours(rnd, 1000.0) if rnd.random() < 0.6 else _random_contours(rnd, 1000.0, closed=True, super_bezier=False) for n in names}
        fonts, inputs = [], []
        for k in range(m):
            sc = upems[k] / 1000.0
            gl = {}
            for n in names:
                if k > 0 and rnd.random() < 0.2:
                    continue            # sparse master
                amp = 8.0 if k else 0.0
                gl[n] = _Glyph([(op, tuple((float(round((x + rnd.uniform(-amp, amp)) * sc)), float(round((y + rnd.uniform(-amp, amp)) * sc))) for x, y in args))
                                for op, args in base[n]])
            fonts.append(_Font(upems[k], gl))
            inputs.append({n: list(g.rec) for n, g in gl.items()})
        how = rnd.choice(["default", "em", "em_list", "abs", "abs_list"])
        if how == "default":
            kw, tols = {}, [DEFAULT_MAX_ERR * u for u in upems]
        elif how == "em":
            e = rnd.choice([0.0005, 0.001, 0.002, 0.004])
            kw, tols = {"max_err_em": e}, [e * u for u in upems]
        elif how == "em_list":
            es = [rnd.choice([0.0005, 0.001, 0.003]) for _ in range(m)]
            kw, tols = {"max_err_em": es}, [e * u for e, u in zip(es, upems)]
        elif how == "abs":
            t = rnd.choice([0.5, 1.0, 3.0])
            kw, tols = {"max_err": t}, [t] * m
        else:
            tols = [rnd.choice([0.5, 1.0, 3.0, 6.0]) for _ in range(m)]
            kw = {"max_err": list(tols)}
        try:
            fonts_to_quadratic(fonts, reverse_direction=rnd.random() < 0.3, remember_curve_type=rnd.random() < 0.5, **kw)
        except Cu2QuError:
            ctx.skip("cu2qu error (incompatible or no approximation)")
            continue
        ok = True
        for n in names:
            structs = {tuple(_structure(f[n].rec)) for f in fonts if n in f}
            ctx.judged()
            if len(structs) > 1:
                ctx.violation({"kind": "curve", "func": "fonts_to_quadratic", "what": "masters converted together have different structures"},
                              "fonts_to_quadratic outputs differ in structure for %s" % n, {"upems": upems, "how": how})
                ok = False
                continue
            for k, f in enumerate(fonts):
                if n in f:
                    ok = _judge_outline(ctx, "fonts_to_quadratic", "tolerance=%s" % how, inputs[k][n], f[n].rec, tols[k], float(upems[k]),
                                        {"upems": upems, "master": k, "kwargs": repr(kw), "tolerances": tols}) and ok
        if ok:
            ctx.nontrivial("fonts_to_quadratic/%s/m%d/upems%d" % (how, m, len(set(upems))))
        if i == 0:
            ctx.sample = {"upems": upems, "how": how, "glyphs": names, "tolerances": tols}


def drv_stored(case, rnd, ctx):
    """The repository's stored cu2qu test curves (Tests/cu2qu/data/curves.json)."""
    import json
    import os
    from vmon import env
    from fontTools.cu2qu import curve_to_quadratic, curves_to_quadratic
    path = os.path.join(env.TESTS, "cu2qu", "data", "curves.json")
    if not os.path.exists(path):
        ctx.skip("stored curves missing")
        return
    curves = json.load(open(path))
    for c in curves:
        _try(curve_to_quadratic, [tuple(p) for p in c], 1.0, True)
        _try(curve_to_quadratic, [tuple(p) for p in c], 0.05, False)
    for k in range(0, len(curves) - 3, 3):
        _try(curves_to_quadratic, [[tuple(p) for p in c] for c in curves[k:k + 3]], [1.0, 0.5, 2.0], True)
    ctx.sample = {"stored_curves": len(curves)}


def drv_suite(case, rnd, ctx):
    """The repository's own tests as a workload for the monitors (outcomes not judged)."""
    from vmon import suite
    passed, failed, tail = suite.run_pytest([case["path"]], ctx)
    ctx.sample = {"suite": case["path"], "tests_passed": passed, "tests_failed": failed}
    if not passed:
        ctx.inconclusive("suite workload ran no passing test: " + tail[-300:])
