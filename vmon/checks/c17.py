"""C17 — renumbering glyphs (reorderGlyphs) or rescaling the em (scale_upem) changes
nothing else.

Every case loads a corpus font (from binary: default / lazy / eager, or from TTX),
applies the real operation, saves, and compares the font *before* and *after* through
HarfBuzz (and spec-written struct readers for the fixed-layout metric tables), keyed by
glyph name: outlines at the default and at variation locations, horizontal / vertical
advances and origins, the nominal glyph of every mapped code point, GDEF glyph classes,
COLR layer lists, MATH per-glyph data and shaping of PUA-addressed texts over the
layout-involved glyphs with explicit features.  For scaling every compared number of
the original is multiplied by U'/U and must agree within the rounding budget of the
independently rounded quantities that make it up; non-design-unit tables must stay
byte-identical to a control save.  Monitors sit on reorderGlyphs, every
ReorderRule.apply (with an association-preserved post-condition), setGlyphOrder,
scale_upem (with a no-shared-state-changed post-condition) and every visit function
registered on ScalerVisitor.
"""
import random
import struct
from collections import Counter
from fractions import Fraction

from vmon import corpus, hooks
from vmon.oracle import geom, hbft
from vmon.oracle import c05_geom as fgeom
from vmon.oracle import c17_tables as ST

PROPERTY = "C17"
LEVEL = "exploration"
RULE = ("a case is (corpus font, load path in {binary default, binary lazy, binary eager, TTX}, operation): "
        "reorder x permutation kind in {random, reversed tail, adjacent transposition, rotation} (.notdef stays first) "
        "or scale x target upem in {U/2, 2U, 1000<->2048, U+1, 16384 (or the largest that fits int16), non-integer ratio}; "
        "non-trivial when the permutation moves at least one glyph that has an outline, a mapping or a layout role "
        "(resp. the factor is not 1) and the saved font opens in HarfBuzz; distinct by (operation, outline technology, "
        "load path, permutation kind / factor class, set of layout and variation tables present)")
ASSUMPTIONS = [
    "HarfBuzz 12.1 is the observer on both sides of the transformation (differential), glyph ids translated to names with the in-memory glyph order of the font that produced the bytes",
    "texts address glyphs through an added format-12 PUA cmap (U+F0000+gid), so only the font's own tables drive shaping; script/language/direction and features are passed explicitly and identically on both sides",
    "scaling budgets: 0.5 per independently rounded stored quantity: TrueType point 0.5, composite point = transform row-sum x component budget + 0.5 for the offset, +1.0 in x when lsb != xMin (two roundings), CFF/CFF2 relative operand 0.5 (compared on consecutive-point differences; 2.5 for the implied last flex coordinate when the font uses flex operators), advance 0.5, values under variation 0.5*(1+sum|scalar|) with scalars computed from the regions by an independent tent model, +0.02 float noise; when the factor is an integer and every original coordinate is an integer the comparison is exact (0.02)",
    "inferred (IUP) gvar deltas depend non-linearly on rounded coordinates: glyphs with partial point sets are compared at variation locations only for exact (integer) scalings",
    "shaping positions after non-exact scaling: 0.5*(1+2*(GPOS lookups + kern subtables))*len(text); exact scalings must reproduce every position times the factor",
    "tables without design units (cmap, name, fvar, avar, STAT, GSUB, gasp, cvt, fpgm, prep, hdmx, LTSH, meta, CPAL, maxp, post names) are compared byte-for-byte with a control save of the same font loaded the same way and fully decompiled (symmetric fontTools-vs-fontTools comparison)",
    "targets whose scaled coordinates / advances would leave the int16 / uint16 range are not generated; TrueType instructions are not scaled by design (only unhinted data compared); fonts with Graphite tables and CFF2 charstrings with a width operand (invalid) are skipped; VARC glyphs are compared only for exact scalings",
]
CASE_TIMEOUT = 300
REQUIRED_MONITORS = ["reorderGlyphs", "ReorderCoverage.apply", "ReorderList.apply", "TTFont.setGlyphOrder",
                     "scale_upem", "ScalerVisitor.visit"]
MANIFEST = {
    "text": "Exploration with differential monitors: corpus fonts loaded from binary (default, lazy, eager) and from TTX are passed through the real reorderGlyphs (random / reversed-tail / adjacent-transposition / rotation permutations, .notdef first) and scale_upem (U/2, 2U, 1000<->2048, U+1, 16384, non-integer ratios); the font before and after is observed through HarfBuzz keyed by glyph name (outlines at default and variation locations, h/v advances and origins, nominal glyphs of all mapped code points, glyph classes, COLR layers, MATH data, shaping of all length<=2 PUA texts over the layout-involved glyphs plus random longer ones with explicit features) and through spec-written readers of head/hhea/vhea/OS/2/post/hmtx/vmtx/VORG/glyf-composite records; scaled numbers must equal original x U'/U within the rounding budget of their stored parts (exact for integer factors), non-design-unit tables must be byte-identical to a control save. Post-condition monitors on every ReorderRule.apply (glyph-record association preserved, coverage sorted by new id), on setGlyphOrder and on scale_upem (no process-wide default mutated); counters on every ScalerVisitor visit function list what was visited and which tables never were. Tests cannot settle this because they permute two fonts once and scale three fonts to one value, diffing TTX.",
    "note": "Trusted base: HarfBuzz 12.1, vmon/oracle/c17_tables.py (struct readers), vmon/oracle/geom.py, Fraction tent model. Budgets are derived from the number of independently rounded stored values; exact for integer factors on integer data. Graphite fonts skipped; IUP glyphs under variation judged only for exact scalings.",
    "technique": "differential runtime monitoring through an independent engine keyed by glyph name; post-condition monitors on reorder rules and scaler; struct-level field comparison; control-save byte comparison for unit-free tables",
    "design_ref": "DESIGN.md §4 C17",
}

TOL = 0.02
PUA = corpus.PUA
_cur = {"obs": Counter()}
_INVALID_CFF2_WIDTH = "CFF2 CharStrings must not have an initial width value"


# ---------------------------------------------------------------- monitors
def setup():
    from fontTools.ttLib import reorderGlyphs as RG, scaleUpem as SU, ttFont as TF
    import fontTools.cffLib as cffLib

    def pre_reorder(a, kw):
        font, new = a[0], a[1]
        return {"old": list(font.getGlyphOrder())}

    def post_reorder(st, a, kw, res, exc):
        if exc is not None or st is None:
            return
        font, new = a[0], a[1]
        _cur["obs"]["reorderGlyphs:calls"] += 1
        if list(font.getGlyphOrder()) != list(new):
            hooks.report({"op": "reorder", "kind": "postcondition", "what": "glyph order is not the requested one"},
                         "font.getGlyphOrder() differs from the requested order after reorderGlyphs", None)
        rev = font.getReverseGlyphMap()
        for i in (0, len(new) // 2, len(new) - 1):
            if new and rev.get(new[i]) != i:
                hooks.report({"op": "reorder", "kind": "postcondition", "what": "reverse glyph map stale"},
                             "getReverseGlyphMap()[%r] = %r, expected %d" % (new[i], rev.get(new[i]), i), None)
                break

    def _cov_lists(rule, value):
        cov = RG._get_dotted_attr(value, rule.coverage_attr)
        par = RG._get_dotted_attr(value, rule.parallel_list_attr) if rule.parallel_list_attr else None
        return cov, par

    def pre_cov(a, kw):
        rule, font, value = a[0], a[1], a[2]
        try:
            cov, par = _cov_lists(rule, value)
        except Exception:
            return None
        if cov is None:
            return None
        if type(cov) is list:
            return {"multi": [sorted(c.glyphs) for c in cov]}
        return {"pairs": None if par is None else sorted((g, id(e)) for g, e in zip(cov.glyphs, par)), "glyphs": sorted(cov.glyphs)}

    def post_cov(st, a, kw, res, exc):
        rule, font, value = a[0], a[1], a[2]
        key = "rule:%s/%s/%s" % (type(value).__name__, getattr(value, "Format", "-"), rule.coverage_attr + ("+" + rule.parallel_list_attr if rule.parallel_list_attr else ""))
        _cur["obs"][key] += 1
        if exc is not None or st is None:
            return
        cov, par = _cov_lists(rule, value)
        gid = font.getGlyphID
        what = None
        if "multi" in st:
            for c, before in zip(cov, st["multi"]):
                ids = [gid(g) for g in c.glyphs]
                if ids != sorted(ids) or sorted(c.glyphs) != before:
                    what = "coverage list not sorted by new glyph id / glyph set changed"
        else:
            ids = [gid(g) for g in cov.glyphs]
            if ids != sorted(ids) or sorted(cov.glyphs) != st["glyphs"]:
                what = "coverage not sorted by new glyph id / glyph set changed"
            elif par is not None and sorted((g, id(e)) for g, e in zip(cov.glyphs, par)) != st["pairs"]:
                what = "parallel array no longer associates the same record with each covered glyph"
        if what:
            hooks.report({"op": "reorder", "kind": "postcondition", "rule": type(value).__name__, "what": what},
                         "ReorderCoverage.apply on %s: %s" % (type(value).__name__, what), None)

    def pre_list(a, kw):
        rule, font, value = a[0], a[1], a[2]
        try:
            lst = RG._get_dotted_attr(value, rule.list_attr)
            return sorted(id(x) for x in lst)
        except Exception:
            return None

    def post_list(st, a, kw, res, exc):
        rule, font, value = a[0], a[1], a[2]
        _cur["obs"]["rule:%s/-/%s" % (type(value).__name__, rule.list_attr)] += 1
        if exc is not None or st is None:
            return
        lst = RG._get_dotted_attr(value, rule.list_attr)
        ids = [font.getGlyphID(getattr(v, rule.key)) for v in lst]
        if ids != sorted(ids) or sorted(id(x) for x in lst) != st:
            hooks.report({"op": "reorder", "kind": "postcondition", "rule": type(value).__name__, "what": "list not sorted by new glyph id / items changed"},
                         "ReorderList.apply on %s.%s" % (type(value).__name__, rule.list_attr), None)

    def post_setorder(st, a, kw, res, exc):
        font = a[0]
        if exc is None and hasattr(font, "_reverseGlyphOrderDict"):
            d = font._reverseGlyphOrderDict
            order = font.glyphOrder
            if len(d) != len(set(order)) or any(d.get(g) != i for i, g in list(enumerate(order))[:50]):
                hooks.report({"op": "reorder", "kind": "postcondition", "what": "reverse glyph map cached across setGlyphOrder"},
                             "TTFont.setGlyphOrder left a stale _reverseGlyphOrderDict", None)

    hooks.attach(RG, "reorderGlyphs", pre=pre_reorder, post=post_reorder, name="reorderGlyphs")
    hooks.attach(RG.ReorderCoverage, "apply", pre=pre_cov, post=post_cov, name="ReorderCoverage.apply")
    hooks.attach(RG.ReorderList, "apply", pre=pre_list, post=post_list, name="ReorderList.apply")
    hooks.attach(TF.TTFont, "setGlyphOrder", post=post_setorder, name="TTFont.setGlyphOrder")

    # ---- scaler ---------------------------------------------------------
    op_tables = [(n, getattr(cffLib, n)) for n in ("topDictOperators", "topDictOperators2", "privateDictOperators",
                                                    "privateDictOperators2", "fontDictOperators", "fontDictOperators2") if hasattr(cffLib, n)]

    def _defaults_snapshot():
        snap = {}
        for tname, table in op_tables:
            for entry in table:
                snap[(tname, entry[1])] = repr(entry[3])
        for cls in (cffLib.TopDict, cffLib.PrivateDict, cffLib.FontDict):
            for k, v in getattr(cls, "defaults", {}).items():
                snap[(cls.__name__, k)] = repr(v)
        return snap

    import copy
    pristine = {}
    for tname, table in op_tables:
        for entry in table:
            pristine[(tname, entry[1])] = copy.deepcopy(entry[3])
    for cls in (cffLib.TopDict, cffLib.PrivateDict, cffLib.FontDict):
        for k, v in getattr(cls, "defaults", {}).items():
            pristine[(cls.__name__, k)] = copy.deepcopy(v)

    def _restore():
        for tname, table in op_tables:
            for entry in table:
                want = pristine[(tname, entry[1])]
                if isinstance(entry[3], list) and entry[3] != want:
                    entry[3][:] = want
        for cls in (cffLib.TopDict, cffLib.PrivateDict, cffLib.FontDict):
            for k, v in getattr(cls, "defaults", {}).items():
                want = pristine[(cls.__name__, k)]
                if isinstance(v, list) and v != want:
                    v[:] = want

    def pre_scale(a, kw):
        return _defaults_snapshot()

    def post_scale(st, a, kw, res, exc):
        _cur["obs"]["scale_upem:calls"] += 1
        now = _defaults_snapshot()
        if st is not None and now != st:
            changed = sorted({k[1] for k in now if now[k] != st.get(k)})
            ex = [k for k in now if now[k] != st.get(k)][0]
            hooks.report({"op": "scale", "kind": "state-pollution", "what": "cffLib shared default values mutated", "field": ",".join(changed)},
                         "scale_upem changed process-wide cffLib defaults %s: %s -> %s (later fonts in the same process inherit it)" % (changed, st[ex], now[ex]), None)
            _restore()   # so that later cases in this worker are not contaminated
        if exc is None:
            font, new = a[0], a[1]
            if font["head"].unitsPerEm != new:
                hooks.report({"op": "scale", "kind": "postcondition", "what": "head.unitsPerEm is not the requested value"},
                             "unitsPerEm %r after scale_upem(font, %r)" % (font["head"].unitsPerEm, new), None)

    hooks.attach(SU, "scale_upem", pre=pre_scale, post=post_scale, name="scale_upem")

    hooks.counters.setdefault("ScalerVisitor.visit", 0)
    registered = []
    for clazz, d in SU.ScalerVisitor._visitors.items():
        for attr, fn in list(d.items()):
            label = "visit:%s.%s" % (clazz.__name__, attr if attr is not None else "*")
            registered.append(label)

            def mk(fn, label):
                def wrapped(visitor, *args, **kwargs):
                    hooks.counters["ScalerVisitor.visit"] += 1
                    _cur["obs"][label] += 1
                    return fn(visitor, *args, **kwargs)
                wrapped.__name__ = "visit"
                wrapped.__vmon_orig__ = fn
                return wrapped

            d[attr] = mk(fn, label)
    _cur["registered_visitors"] = registered
    _cur["direct_classes"] = {clazz for clazz in SU.ScalerVisitor._visitors}


# ---------------------------------------------------------------- cases
# Composites attached by point matching (firstPt/secondPt): scale_upem raises AttributeError on them
# (pending finding C17-N8, notes/pending_findings.md).  Switch on once the finding is fixed or registered.
ANCHORED_COMPOSITES = True
# Paint traces of variable COLRv1 glyphs at non-default locations: scale_upem scales every delta of the
# COLR VarStore, also those of variable paint fields that live inside the PaintScale wrapper or are not
# lengths (pending finding C17-N9, notes/pending_findings.md).  Switch on once fixed or registered.
COLR_VAR_PAINT_TRACE = True
PERMS = ["random", "reverse-tail", "transpose", "rotate"]
MODES = ["bin-default", "bin-lazy", "bin-eager", "ttx"]
TARGETS = ["half", "double", "1000<->2048", "plus1", "16384", "ratio"]


def _usable(rec):
    if not rec.get("complete"):
        return False
    if any(t in rec["tables"] for t in ("Silf", "Glat", "Gloc")):
        return False
    return True


def cases(tier, seed):
    T = tier == "thorough"
    recs = corpus.fonts(pred=_usable)
    rnd = random.Random("c17-cases/%s" % seed)
    aots = [r for r in recs if "/aots/" in r["path"]]
    rest = [r for r in recs if "/aots/" not in r["path"]]
    if not T:
        aots = sorted(rnd.sample(aots, min(len(aots), 48)), key=lambda r: r["path"])
    out = []
    for i, r in enumerate(rest + aots):
        fid = "%s%s" % (r["path"], "#%d" % r["member"] if r.get("member") is not None else "")
        modes = [m for m in MODES if m != "ttx" or r["path"].endswith(".ttx")]
        big = r["numGlyphs"] > 400
        if T:
            combos_r = [(p, m) for p in PERMS for m in modes]
            combos_s = [(t, m) for t in TARGETS for m in modes]
            if big or "/aots/" in r["path"]:
                combos_r = [(PERMS[(i + k) % 4], m) for k, m in enumerate(modes)] + [(PERMS[(i + 2) % 4], modes[0])]
                combos_s = [(TARGETS[(i + k) % 6], modes[k % len(modes)]) for k in range(4)]
        else:
            k = (i + seed) % 12
            combos_r = [(PERMS[k % 4], modes[k % len(modes)])]
            combos_s = [(TARGETS[k % 6], modes[(k + 1) % len(modes)])]
            if "/aots/" not in r["path"] and not big:
                combos_r.append((PERMS[(k + 1) % 4], modes[(k + 2) % len(modes)]))
                combos_s.append((["double", "half", "ratio"][k % 3] if TARGETS[k % 6] != ["double", "half", "ratio"][k % 3] else "plus1", modes[(k + 3) % len(modes)]))
        for p, m in combos_r:
            out.append({"id": "reorder:%s:%s:%s" % (fid, p, m), "op": "reorder", "path": r["path"], "member": r.get("member"),
                        "perm": p, "mode": m, "seed": seed, "thorough": T})
        # recalcBBoxes=False: the stored (scaled) boxes and derived header fields are what gets written
        if T:
            combos_s += [(t, "bin-keepbbox") for t in (TARGETS if not (big or "/aots/" in r["path"]) else TARGETS[i % 6:i % 6 + 1])]
        elif r.get("outlines") == "glyf":
            combos_s.append((TARGETS[(i + seed + 1) % 6], "bin-keepbbox"))
        if not T and r["numGlyphs"] > 1000:
            combos_s = []      # scale_upem itself needs ~15 s on such a font (visitor over every charstring token)
        for t, m in combos_s:
            out.append({"id": "scale:%s:%s:%s" % (fid, t, m), "op": "scale", "path": r["path"], "member": r.get("member"),
                        "target": t, "mode": m, "seed": seed, "thorough": T, "timeout": 900 if r["numGlyphs"] > 1000 else 300})
    # the two design-time witnesses are always present
    fixed = [("reorder", "fontBuilder/data/test_var.otf.ttx", "transpose", "bin-default"),
             ("reorder", "subset/data/test_math_closure.ttx", "random", "bin-default")]
    have = {c["id"] for c in out}
    for op, path, p, m in fixed:
        cid = "reorder:%s:%s:%s" % (path, p, m)
        if cid not in have:
            out.append({"id": cid, "op": op, "path": path, "member": None, "perm": p, "mode": m, "seed": seed, "thorough": T})
    # generated fonts: every GSUB/GPOS lookup type, plain and wrapped in Extension subtables; composites
    # (nested, transformed, anchored), variable composites
    gens = []
    n_lay = 12 if T else 4
    for gi in range(n_lay):
        gens.append({"kind": "layout", "i": gi, "params": {"ext": gi % 4 != 3}})
    for gi in range(6 if T else 2):
        gens.append({"kind": "ttcomp", "i": gi, "params": {"anchors": False}})
        if ANCHORED_COMPOSITES and gi < 2:
            gens.append({"kind": "ttcomp", "i": 100 + gi, "params": {"anchors": True}})
        gens.append({"kind": "ttvar", "i": gi, "params": {"hvar": ["none", "map", "direct"][gi % 3]}})
    gens.append({"kind": "varcolr", "i": 0, "params": {}})
    bmodes = ["bin-default", "bin-lazy", "bin-eager"]
    for n, g in enumerate(gens):
        label = "gen:%s:%d:%s" % (g["kind"], g["i"], ",".join("%s=%s" % kv for kv in sorted(g["params"].items())))
        if T:
            cr = [(p, m) for p in PERMS for m in bmodes]
            cs_ = [(t, m) for t in TARGETS for m in bmodes + ["bin-keepbbox"]]
        else:
            k = n + seed
            cr = [(PERMS[(k + j) % 4], bmodes[(k + j) % 3]) for j in range(4 if g["kind"] == "layout" else 1)]
            cs_ = [(TARGETS[k % 6], bmodes[k % 3]), (TARGETS[(k + 1) % 6], "bin-keepbbox")]
        for p_, m in cr:
            out.append({"id": "reorder:%s:%s:%s" % (label, p_, m), "op": "reorder", "path": label, "member": None, "gen": g,
                        "perm": p_, "mode": m, "seed": seed, "thorough": T})
        for t, m in cs_:
            out.append({"id": "scale:%s:%s:%s" % (label, t, m), "op": "scale", "path": label, "member": None, "gen": g,
                        "target": t, "mode": m, "seed": seed, "thorough": T})
    # operation histories on one TTFont object
    hfonts = [("subset/data/Lobster.subset.otf", None), ("ttx/data/TestTTF.ttf", None),
              ("varLib/data/MutatorSans_All_Variable.ttx", None), ("subset/data/TestHVVAR.ttx", None),
              ("gen:layout:h0", {"kind": "layout", "i": 50, "params": {"ext": True}}),
              ("gen:ttvar:h0", {"kind": "ttvar", "i": 50, "params": {"hvar": "map"}}),
              ("ttLib/data/TestVGID-Regular.otf", None)]
    if T:
        hfonts += [("fontBuilder/data/test_var.otf.ttx", None), ("merge/data/CFFFont2.ttx", None),
                   ("ttLib/tables/data/aots/gpos2_1_font7.otf", None), ("ttLib/tables/data/aots/gsub_chaining3_next_glyph_f1.otf", None),
                   ("subset/data/TestMATH-Regular.ttx", None), ("ttLib/tables/data/COLRv1-clip-boxes-glyf.ttx", None),
                   ("gen:layout:h1", {"kind": "layout", "i": 51, "params": {"ext": False}}),
                   ("gen:varcolr", {"kind": "varcolr", "i": 0, "params": {}})]
    have_paths = {r["path"] for r in recs}
    hnames = sorted(HISTORIES)
    for n, (path, g) in enumerate(hfonts):
        if g is None and path not in have_paths:
            continue
        if T:
            combos_h = [(h, m) for h in hnames for m in ("bin-default", "bin-eager")]
        else:
            combos_h = [("reorder,same-list-x2", "bin-default"), (hnames[(n + seed) % len(hnames)], "bin-eager")]
            if path.endswith("TestVGID-Regular.otf"):
                combos_h = combos_h[:1]
        for h, m in dict.fromkeys(combos_h):
            out.append({"id": "history:%s:%s:%s" % (path, h, m), "op": "history", "path": path, "member": None, "gen": g,
                        "history": h, "steps": HISTORIES[h], "mode": m, "seed": seed, "thorough": T})
    # scaling a font opened with lazy=True whose GPOS has arrays of more than 8 fixed-size records
    # (read lazily as LazyList): every record must still be visited
    for path, t in (("merge/data/CFFFont2.ttx", "double"), ("merge/data/CFFFont2.ttx", "ratio"),
                    ("ttLib/data/TestVGID-Regular.otf", "double"), ("varLib/data/MutatorSans_All_Variable.ttx", "double")):
        cid = "scale:%s:%s:%s" % (path, t, "bin-lazy")
        if cid not in {c["id"] for c in out}:
            out.append({"id": cid, "op": "scale", "path": path, "member": None, "target": t, "mode": "bin-lazy", "seed": seed, "thorough": T})
    return out


# ---------------------------------------------------------------- preparation
_prep_cache = {}


def _tech(font):
    return "CFF2" if "CFF2" in font else "CFF " if "CFF " in font else "glyf" if "glyf" in font else "none"


def _gen_bytes(gen, seed):
    """Seeded generated font (vmon.gen.c17_fonts.layout / vmon.gen.c05_fonts builders)."""
    grnd = random.Random("c17-gen/%s/%s/%s" % (gen["kind"], gen["i"], seed))
    if gen["kind"] == "layout":
        from vmon.gen import c17_fonts
        return c17_fonts.layout(grnd, **gen.get("params", {}))
    if gen["kind"] == "varcolr":
        from vmon.gen import c17_fonts
        return c17_fonts.varcolr()
    from vmon.gen import c05_fonts
    return c05_fonts.build(gen["kind"], grnd, **gen.get("params", {}))


def _prepare(ctx, path, member, gen=None, seed=0):
    """-> plain-sfnt bytes B0 carrying the PUA cmap."""
    key = (path, member, seed if gen else None)
    if key in _prep_cache:
        return _prep_cache[key]
    with ctx.lib("load"):
        data = _gen_bytes(gen, seed) if gen else corpus.font_bytes(path, member)
        f = corpus.open_bytes(data)
        if f.flavor:
            f.flavor = None
        corpus.fix_glyph_names(f)
        corpus.add_pua(f)
        B0 = corpus.save_bytes(f)
    if len(_prep_cache) > 8:
        _prep_cache.clear()
    _prep_cache[key] = B0
    return B0


def _load_subject(ctx, case, B0):
    """The font the operation is applied to (and, called twice, the reference)."""
    mode = case["mode"]
    with ctx.lib("load"):
        if mode == "ttx":
            f = corpus.load(case["path"])
            corpus.fix_glyph_names(f)
            corpus.add_pua(f)
        else:
            lazy = {"bin-default": None, "bin-lazy": True, "bin-eager": False, "bin-keepbbox": None}[mode]
            kw = {"recalcBBoxes": False} if mode == "bin-keepbbox" else {}
            f = corpus.open_bytes(B0, lazy=lazy, **kw)
            corpus.fix_glyph_names(f)
    return f


def _load_inspect(ctx, case, data):
    """A private copy for input inspection whose glyph names are the subject's."""
    with ctx.lib("load"):
        if case["mode"] == "ttx":
            f = corpus.load(case["path"])
            corpus.add_pua(f)
        else:
            f = corpus.open_bytes(data)
    return f


def _involved(font, order):
    """Input inspection: glyph names mentioned by the layout tables; feature and script tags."""
    names = set(order)
    found = []
    seen_ids = set()

    def walk(o, depth=0):
        if depth > 40:
            return
        if isinstance(o, str):
            if o in names:
                found.append(o)
            return
        if isinstance(o, (int, float, bytes, type(None))):
            return
        if id(o) in seen_ids:
            return
        seen_ids.add(id(o))
        if isinstance(o, dict):
            for k, v in o.items():
                walk(k, depth + 1)
                walk(v, depth + 1)
        elif isinstance(o, (list, tuple, set)):
            for x in o:
                walk(x, depth + 1)
        elif hasattr(o, "__dict__"):
            for k, v in vars(o).items():
                if k in ("reader", "font", "ttFont"):
                    continue
                walk(v, depth + 1)

    feats, scripts, nlookups = set(), set(), 0
    for tag in ("GSUB", "GPOS"):
        if tag in font:
            t = font[tag].table
            try:
                t.ensureDecompiled(recurse=True)
            except Exception:
                pass
            if getattr(t, "FeatureList", None):
                feats.update(fr.FeatureTag for fr in t.FeatureList.FeatureRecord)
            if getattr(t, "ScriptList", None):
                scripts.update(sr.ScriptTag for sr in t.ScriptList.ScriptRecord)
            if tag == "GPOS" and getattr(t, "LookupList", None):
                nlookups += len(t.LookupList.Lookup)
            walk(getattr(t, "LookupList", None))
    for tag in ("kern", "morx", "kerx", "mort"):
        if tag in font:
            try:
                walk(font[tag])
                if tag == "kern":
                    nlookups += len(font["kern"].kernTables)
            except Exception:
                pass
    uniq = []
    s = set()
    for g in found:
        if g not in s:
            s.add(g)
            uniq.append(g)
    return uniq, sorted(feats), sorted(scripts), nlookups


def _targeted_pairs(font, order, rnd, cap=700):
    """Input inspection: glyph pairs that address individual records of the GPOS arrays
    (every PairValueRecord of long PairSets first, one pair per class pair, each mark with
    a base / ligature / mark of its lookup, consecutive cursive glyphs), so that a record
    left untouched in a long (lazily read) array is exercised by some text."""
    names = set(order)
    if "GPOS" not in font:
        return []
    try:
        lookups = font["GPOS"].table.LookupList.Lookup
    except Exception:
        return []
    long_pairs, pairs = [], []

    def sub(st):
        return getattr(st, "ExtSubTable", st)

    try:
        for lk in lookups:
            for st in lk.SubTable:
                st = sub(st)
                cls = type(st).__name__
                if cls == "PairPos" and st.Format == 1:
                    for a, ps in zip(st.Coverage.glyphs, st.PairSet):
                        recs = list(ps.PairValueRecord)
                        dst = long_pairs if len(recs) > 8 else pairs
                        for r in recs:
                            dst.append((a, r.SecondGlyph))
                elif cls == "PairPos" and st.Format == 2:
                    c1, c2 = st.ClassDef1.classDefs, st.ClassDef2.classDefs
                    by1, by2 = {}, {}
                    for g in st.Coverage.glyphs:
                        by1.setdefault(c1.get(g, 0), g)
                    for g, k in c2.items():
                        by2.setdefault(k, g)
                    for g in order:
                        if g not in c2:
                            by2.setdefault(0, g)
                            break
                    dst = long_pairs if (len(by1) > 8 or len(by2) > 8) else pairs
                    for a in by1.values():
                        for b in by2.values():
                            dst.append((a, b))
                elif cls in ("MarkBasePos", "MarkLigPos", "MarkMarkPos"):
                    mcov = getattr(st, "MarkCoverage", None) or getattr(st, "Mark1Coverage", None)
                    bcov = getattr(st, "BaseCoverage", None) or getattr(st, "LigatureCoverage", None) or getattr(st, "Mark2Coverage", None)
                    if mcov is None or bcov is None:
                        continue
                    marks, bases = list(mcov.glyphs), list(bcov.glyphs)
                    dst = long_pairs if (len(marks) > 8 or len(bases) > 8) else pairs
                    for i, m in enumerate(marks):
                        dst.append((bases[i % len(bases)], m))
                    for i, b in enumerate(bases):
                        dst.append((b, marks[i % len(marks)]))
                elif cls == "CursivePos":
                    gl = list(st.Coverage.glyphs)
                    dst = long_pairs if len(gl) > 8 else pairs
                    for a, b in zip(gl, gl[1:] + gl[:1]):
                        dst.append((a, b))
                elif cls == "SinglePos":
                    gl = list(st.Coverage.glyphs)
                    dst = long_pairs if len(gl) > 8 else pairs
                    for a in gl:
                        dst.append((a,))
    except Exception:
        pass
    long_pairs = [t for t in dict.fromkeys(long_pairs) if all(g in names for g in t)]
    pairs = [t for t in dict.fromkeys(pairs) if all(g in names for g in t)]
    if len(long_pairs) > cap:
        long_pairs = rnd.sample(long_pairs, cap)
    room = max(0, cap - len(long_pairs))
    if len(pairs) > room:
        pairs = rnd.sample(pairs, room)
    return long_pairs + pairs


def _texts(rnd, involved, order, thorough):
    """Lists of glyph-name sequences."""
    others = [g for g in order[1:] if g not in set(involved)]
    texts = []
    inv = list(involved)
    if len(inv) <= 40:
        texts += [(a,) for a in inv]
        texts += [(a, b) for a in inv for b in inv]
    else:
        texts += [(a,) for a in rnd.sample(inv, 40)]
        for _ in range(500 if thorough else 300):
            texts.append((rnd.choice(inv), rnd.choice(inv)))
    pool = inv or order[1:] or order
    n_long = 500 if thorough else 150
    for _ in range(n_long):
        L = rnd.choice([3, 3, 4, 5, 6])
        t = tuple(rnd.choice(pool) if (rnd.random() < 0.85 or not others) else rnd.choice(others) for _i in range(L))
        texts.append(t)
    if others:
        texts += [(g,) for g in rnd.sample(others, min(20, len(others)))]
    if len(texts) > 2600:
        head = texts[:len(inv)]
        texts = head + rnd.sample(texts[len(inv):], 2600 - len(head))
    return texts


def _shape_configs(feats, scripts):
    cfgs = [("Zyyy", None)]
    allf = {t: True for t in feats}
    if allf:
        cfgs.append(("Zyyy", allf))
    import uharfbuzz as hb
    extra = [s for s in scripts if s not in ("DFLT", "latn")][:2]
    for s in extra:
        try:
            iso = hb.ot_tag_to_script(s)
        except Exception:
            continue
        cfgs.append((iso, allf or None))
    return cfgs


def _hb_locations(H, rnd, n):
    """Random user-space locations from HarfBuzz's own axis list."""
    axes = list(H.face.axis_infos)
    if not axes:
        return []
    locs = []
    for _ in range(n):
        locs.append({a.tag: round(rnd.uniform(a.min_value, a.max_value), 2) for a in axes})
    locs.append({a.tag: a.max_value for a in axes})
    locs.append({a.tag: a.min_value for a in axes})
    return locs


def _layout_tags(face):
    """script / language / feature tags of GSUB and GPOS as HarfBuzz sees them"""
    out = {}
    for tag in ("GSUB", "GPOS"):
        try:
            scripts = list(face.get_table_script_tags(tag))
        except Exception:
            continue
        t = []
        for si, sc in enumerate(scripts):
            langs = list(face.get_script_language_tags(tag, si))
            entry = [sc, sorted(face.get_language_feature_tags(tag, si, 0xFFFF))]
            for li, lg in enumerate(langs):
                entry.append((lg, sorted(face.get_language_feature_tags(tag, si, li))))
            t.append(entry)
        out[tag] = t
    return out


def _name_of(order, gid):
    if gid is None:
        return None
    return order[gid] if gid < len(order) else "gid%d" % gid


# ---------------------------------------------------------------- reorder
def _permute(kind, order, rnd):
    tail = list(order[1:])
    if len(tail) < 2:
        return list(order)
    if kind == "random":
        rnd.shuffle(tail)
    elif kind == "reverse-tail":
        k = rnd.randrange(0, max(1, len(tail) - 1))
        tail = tail[:k] + tail[k:][::-1]
    elif kind == "transpose":
        k = rnd.randrange(0, len(tail) - 1)
        tail[k], tail[k + 1] = tail[k + 1], tail[k]
    elif kind == "rotate":
        k = rnd.randrange(1, len(tail))
        tail = tail[k:] + tail[:k]
    return [order[0]] + tail


def _run_reorder(case, ctx, rnd):
    from fontTools.ttLib.reorderGlyphs import reorderGlyphs

    B0 = _prepare(ctx, case["path"], case.get("member"), case.get("gen"), case["seed"])
    mode = case["mode"]
    if mode == "ttx":
        ref = _load_subject(ctx, case, B0)
        order0 = list(ref.getGlyphOrder())
        with ctx.lib("save-reference"):
            R0 = corpus.save_bytes(ref)
    else:
        R0 = B0
    subj = _load_subject(ctx, case, B0)
    if mode != "ttx":
        order0 = list(subj.getGlyphOrder())
    tech = _tech(subj)
    tabs = sorted(t for t in subj.keys() if t != "GlyphOrder")
    ctx.sample = {"font": case["path"], "op": "reorder", "perm": case["perm"], "load": mode, "glyphs": len(order0), "tech": tech}
    if case["path"] == "fontBuilder/data/test_var.otf.ttx" and "A" in order0 and "a" in order0:
        new = list(order0)
        i, j = new.index("A"), new.index("a")
        new[i], new[j] = new[j], new[i]
    else:
        new = _permute(case["perm"], order0, rnd)
    if new == order0:
        ctx.skip("permutation is the identity (fewer than 3 glyphs)")
        return
    extra = {"load": mode, "tech": tech}
    try:
        with ctx.lib("reorderGlyphs", **extra):
            reorderGlyphs(subj, list(new))
        with ctx.lib("save-after-reorder", **extra):
            B1 = corpus.save_bytes(subj)
    except Exception as e:
        if _is_invalid_cff2(ctx, e):
            return
        raise
    moved = [g for g, h in zip(order0, new) if g != h]
    ctx.sample["moved"] = len(moved)
    _compare_reordered(ctx, case, rnd, R0, B1, order0, new, tech, tabs, mode)


def _is_invalid_cff2(ctx, e):
    from vmon.case import LibRaised

    cause = e.__cause__ if isinstance(e, LibRaised) else e
    if isinstance(cause, AssertionError) and _INVALID_CFF2_WIDTH in str(cause):
        # the violation recorded by ctx.lib is withdrawn: the input is invalid CFF2
        ctx.violations[:] = [v for v in ctx.violations if _INVALID_CFF2_WIDTH not in v["what"]]
        ctx.skip("invalid CFF2 charstring (width operand)")
        return True
    return False


def _compare_reordered(ctx, case, rnd, R0, B1, order0, new, tech, tabs, mode, cp_of=None):
    H0, H1 = hbft.HB(R0), hbft.HB(B1)
    idx0 = {g: i for i, g in enumerate(order0)}
    idx1 = {g: i for i, g in enumerate(new)}
    if cp_of is None:
        cp_of = {g: PUA + i for g, i in idx0.items()}
    base = {"op": "reorder", "tech": tech, "load": mode}
    if case.get("history"):
        base["history"] = case["history"]
        base["step"] = case.get("_step")

    def viol(kind, what, **w):
        ctx.violation(dict(base, kind=kind), "%s [%s, %s]: %s" % (case["path"], case["perm"], mode, what),
                      dict(w, font=case["path"], perm=case["perm"], load=mode, new_order_head=new[:12]))

    if H0.glyph_count != H1.glyph_count:
        viol("glyph-count", "glyph count %d -> %d" % (H0.glyph_count, H1.glyph_count))
        return
    T0r = ST.sfnt_tables(R0)
    # ---- per glyph name: outline, advances, origins, classes, colour layers ---
    locs = [None] + _hb_locations(H0, rnd, 3 if case.get("thorough") else 2)
    nontrivial = False
    var_metrics_bad = False
    for li, loc in enumerate(locs):
        h0 = H0 if loc is None else hbft.HB(R0, variations=loc)
        h1 = H1 if loc is None else hbft.HB(B1, variations=loc)
        bad = Counter()
        first = {}
        for g in order0:
            a, b = idx0[g], idx1[g]
            o0, o1 = h0.outline(a), h1.outline(b)
            ctx.judged()
            cascade = False
            if o0 != o1:
                d = geom.max_point_diff(o0, o1)
                if d is None or d > 1e-3:
                    bad["outline"] += 1
                    cascade = True
                    first.setdefault("outline", (g, a, b, o0[:3], o1[:3]))
            elif o0 and a != b:
                nontrivial = True
            if h0.h_advance(a) != h1.h_advance(b):
                bad["advance"] += 1
                cascade = True
                first.setdefault("advance", (g, a, b, h0.h_advance(a), h1.h_advance(b)))
            if h0.v_advance(a) != h1.v_advance(b):
                bad["v-advance"] += 1
                cascade = True
                first.setdefault("v-advance", (g, a, b, h0.v_advance(a), h1.v_advance(b)))
            # the vertical origin is derived from the advance and the extents when there is no VORG
            if not cascade and h0.font.get_glyph_v_origin(a) != h1.font.get_glyph_v_origin(b):
                bad["v-origin"] += 1
                first.setdefault("v-origin", (g, a, b, h0.font.get_glyph_v_origin(a), h1.font.get_glyph_v_origin(b)))
        ctx.judged(3)
        if loc is not None and (bad.get("advance") or bad.get("v-advance") or bad.get("outline")):
            var_metrics_bad = True
        for k, n in bad.items():
            g, a, b, x, y = first[k]
            m = {"loc": "default" if loc is None else "variation"}
            if k == "advance" and loc is not None:
                m["hvar_map"] = _var_map(T0r, "HVAR", 8)
            if k in ("v-advance", "v-origin") and loc is not None:
                m["vvar_map"] = _var_map(T0r, "VVAR", 8 if k == "v-advance" else 20)
            ctx.violation(dict(base, kind=k, **m), "%s [%s, %s]: %d glyph names differ in %s at %s; e.g. %r (gid %d -> %d): %r vs %r"
                          % (case["path"], case["perm"], mode, n, k, loc or "default", g, a, b, x, y),
                          {"font": case["path"], "perm": case["perm"], "load": mode, "glyph": g, "location": loc, "new_order_head": new[:12]})
    # glyph classes, colour layers, MATH
    import uharfbuzz as hb
    bad = Counter()
    first = {}
    f0, f1 = H0.face, H1.face
    has_cls = f0.has_layout_glyph_classes
    has_col = f0.has_color_layers
    has_math = f0.has_math_data
    if has_cls != f1.has_layout_glyph_classes or has_col != f1.has_color_layers or has_math != f1.has_math_data:
        viol("table-presence", "GDEF classes / COLR / MATH presence changed")
    ctx.judged()
    if _layout_tags(f0) != _layout_tags(f1):
        viol("layout-tags", "script / language / feature tags of GSUB/GPOS changed")
    for g in order0:
        a, b = idx0[g], idx1[g]
        if has_cls:
            if f0.get_layout_glyph_class(a) != f1.get_layout_glyph_class(b):
                bad["glyph-class"] += 1
                first.setdefault("glyph-class", (g, f0.get_layout_glyph_class(a), f1.get_layout_glyph_class(b)))
        if has_col:
            l0 = [(_name_of(order0, l.glyph), l.color_index) for l in f0.get_glyph_color_layers(a)]
            l1 = [(_name_of(new, l.glyph), l.color_index) for l in f1.get_glyph_color_layers(b)]
            if l0 != l1:
                bad["color-layers"] += 1
                first.setdefault("color-layers", (g, l0, l1))
        if f0.has_color_paint and f0.glyph_has_color_paint(a) != f1.glyph_has_color_paint(b):
            bad["color-paint"] += 1
            first.setdefault("color-paint", (g, f0.glyph_has_color_paint(a), f1.glyph_has_color_paint(b)))
        if has_math:
            m0 = _math(H0, a, order0)
            m1 = _math(H1, b, new)
            if m0 != m1:
                bad["math"] += 1
                first.setdefault("math", (g, m0, m1))
    ctx.judged(1 + has_cls + has_col + has_math)
    for k, n in bad.items():
        viol(k, "%d glyph names differ in %s; e.g. %r" % (n, k, first[k]), glyph=first[k][0])
    # ---- character map -----------------------------------------------------
    # code points whose glyph id lies outside the font (deliberately broken test cmaps) are not judged
    ng = H0.glyph_count
    cps = [cp for cp in sorted(f0.unicodes) if (H0.nominal(cp) or 0) < ng]
    if True:
        n_bad = 0
        ex = None
        for cp in cps:
            a, b = H0.nominal(cp), H1.nominal(cp)
            if _name_of(order0, a) != _name_of(new, b):
                n_bad += 1
                ex = ex or (cp, _name_of(order0, a), _name_of(new, b))
        extra_cps = [cp for cp in sorted(f1.unicodes) if (H1.nominal(cp) or 0) < ng and cp not in f0.unicodes]
        ctx.judged()
        if n_bad:
            viol("cmap", "%d code points map to another glyph name; e.g. U+%04X %r -> %r" % (n_bad, ex[0], ex[1], ex[2]))
        if extra_cps:
            viol("cmap", "%d code points are mapped that were not before; e.g. U+%04X" % (len(extra_cps), extra_cps[0]))
        for vs in sorted(f0.variation_selectors):
            for cp in sorted(f0.variation_unicodes(vs))[:200]:
                a, b = H0.variation_glyph(cp, vs), H1.variation_glyph(cp, vs)
                if _name_of(order0, a) != _name_of(new, b):
                    viol("cmap-uvs", "U+%04X U+%04X maps to %r -> %r" % (cp, vs, _name_of(order0, a), _name_of(new, b)))
                    break
    # ---- shaping -------------------------------------------------------------
    insp = _load_inspect(ctx, case, R0)
    involved, feats, scripts, nl = _involved(insp, order0)
    targeted = _targeted_pairs(insp, order0, rnd, 700 if case.get("thorough") else 400)
    texts = targeted + _texts(rnd, involved, order0, case.get("thorough"))
    ctx.note("reorder:targeted-gpos-record-texts", len(targeted))
    n_active = 0
    for script, features in _shape_configs(feats, scripts):
        for vloc in [None] + (_hb_locations(H0, rnd, 1)[:1] if "fvar" in tabs else []):
            if vloc is not None and var_metrics_bad:
                ctx.skip("shaping at a variation location not judged: glyph advances/outlines already differ there")
                continue
            h0 = H0 if vloc is None else hbft.HB(R0, variations=vloc)
            h1 = H1 if vloc is None else hbft.HB(B1, variations=vloc)
            n_bad, ex = 0, None
            for t in texts:
                cps_t = [cp_of[g] for g in t]
                r0 = hbft.shape_names(h0, order0, cps_t, features, script=script)
                r1 = hbft.shape_names(h1, new, cps_t, features, script=script)
                if r0 != r1:
                    n_bad += 1
                    ex = ex or (t, r0, r1)
                if [x[0] for x in r0] != list(t) or any(x[3] or x[4] for x in r0) or any(x[1] != h0.h_advance(idx0[x[0]]) for x in r0 if x[0] in idx0):
                    n_active += 1
            ctx.judged(len(texts))
            if n_bad:
                seq_differs = [x[0] for x in ex[1]] != [x[0] for x in ex[2]]
                ctx.violation(dict(base, kind="shaping", differs="glyphs" if seq_differs else "positions"),
                              "%s [%s, %s]: %d of %d texts shape differently (script %s, features %s); e.g. %r: %r vs %r"
                              % (case["path"], case["perm"], mode, n_bad, len(texts), script, "all" if features else "default", ex[0], ex[1][:6], ex[2][:6]),
                              {"font": case["path"], "text": list(ex[0]), "before": ex[1], "after": ex[2], "features": sorted(features or {}), "script": script, "location": vloc})
    ctx.note("reorder:texts-with-active-layout", n_active)
    ctx.sample["texts"] = len(texts)
    ctx.sample["involved_glyphs"] = len(involved)
    ctx.sample["texts_with_active_layout"] = n_active
    layout = "+".join(t for t in ("GSUB", "GPOS", "GDEF", "kern", "MATH", "COLR", "HVAR", "VVAR", "gvar", "VORG", "vmtx", "hdmx", "BASE", "morx") if t in tabs)
    if nontrivial or involved:
        ctx.nontrivial("reorder/%s/%s/%s/%s" % (tech.strip(), mode, case["perm"], layout))


def _var_map(tables, tag, off):
    """HVAR/VVAR: is the delta-set index map at header offset `off` present ('explicit')
    or are delta sets indexed by glyph id ('implicit')?  None when the table is absent."""
    if tag not in tables or len(tables[tag]) < off + 4:
        return None
    return "explicit" if struct.unpack_from(">L", tables[tag], off)[0] else "implicit"


def _math(H, gid, order):
    f = H.font
    out = [f.get_math_glyph_italics_correction(gid), f.get_math_glyph_top_accent_attachment(gid),
           H.face.is_glyph_extended_math_shape(gid)]
    for direction in ("ltr", "ttb"):
        try:
            vs = f.get_math_glyph_variants(gid, direction)
            out.append([(_name_of(order, v.glyph), v.advance) for v in vs])
        except Exception:
            out.append("n/a")
        try:
            parts, ic = f.get_math_glyph_assembly(gid, direction)
            out.append(([(_name_of(order, p.glyph), p.start_connector_length, p.end_connector_length, p.full_advance, int(p.flags)) for p in parts], ic))
        except Exception:
            out.append("n/a")
    try:
        import uharfbuzz as hb
        for k in hb.OTMathKern:
            out.append([(e.max_correction_height, e.kern_value) for e in f.get_math_glyph_kernings(gid, k)])
    except Exception:
        out.append("n/a")
    return out


# ---------------------------------------------------------------- scale
def _pick_target(kind, U, maxabs, rnd):
    """-> new upem or None"""
    if kind == "half":
        t = U // 2
    elif kind == "double":
        t = U * 2
    elif kind == "1000<->2048":
        t = 2048 if U != 2048 else 1000
    elif kind == "plus1":
        t = U + 1
    elif kind == "16384":
        t = 16384
    else:
        t = int(U * rnd.choice([1.37, 0.73, 1.0 / 3, 2.5, 0.9])) + rnd.choice([0, 1])
    t = max(16, min(16384, t))
    # keep every scaled design-unit value inside int16 with a margin for derived sums
    limit = 16000
    if maxabs * t / U > limit:
        t = int(limit * U / maxabs)
        if t < 16:
            return None
    if t == U:
        t = U + 1 if (U + 1) * maxabs / U <= limit else U - 1
    return t


def _maxabs(H, tables):
    """largest magnitude of any design-unit number the engine reports (pre-check for overflow)"""
    m = 1
    for gid in range(H.glyph_count):
        for _op, args in H.outline(gid):
            for p in args:
                if p is not None:
                    m = max(m, abs(p[0]), abs(p[1]))
        m = max(m, abs(H.h_advance(gid)), abs(H.v_advance(gid)))
    for tag, rd in ST.READERS.items():
        if tag in tables and tag in ST.DESIGN:
            try:
                d = rd(tables[tag])
            except struct.error:
                continue
            for k in ST.DESIGN[tag] | ST.DERIVED.get(tag, set()):
                if k in d:
                    m = max(m, abs(d[k]))
    return m


def _tent(x, s, p, e):
    """OpenType region scalar for one axis (x, start, peak, end as numbers)."""
    if p == 0:
        return 1.0
    if s > p or p > e or (s < 0 and e > 0):
        return 1.0
    if x == p:
        return 1.0
    if x <= s or x >= e:
        return 0.0
    if x < p:
        return (x - s) / (p - s)
    return (e - x) / (e - p)


def _scalar(region, loc):
    """region: {tag: (start, peak, end)}; loc: {tag: normalised}"""
    v = 1.0
    for tag, (s, p, e) in region.items():
        v *= _tent(loc.get(tag, 0.0), s, p, e)
        if v == 0.0:
            return 0.0
    return v


class _Budget:
    """Rounding budgets of the original font (input inspection)."""

    def __init__(self, insp, order, factor=1.0):
        self.font = insp
        self.factor = factor
        self.order = order
        self.tech = _tech(insp)
        self.axes = [a.axisTag for a in insp["fvar"].axes] if "fvar" in insp else []
        self.glyf = insp["glyf"] if self.tech == "glyf" else None
        self.gvar = insp["gvar"].variations if "gvar" in insp else {}
        self.hmtx = insp["hmtx"].metrics
        self.varc = set()
        if "VARC" in insp:
            try:
                self.varc = set(insp["VARC"].table.Coverage.glyphs)
            except Exception:
                pass
        self.has_flex = False
        self._gs = None
        self.cff_regions = []
        if self.tech in ("CFF ", "CFF2"):
            self._scan_cff()
        self._stores = {}

    def _scan_cff(self):
        tag = self.tech
        top = self.font[tag].cff.topDictIndex[0]
        flex = {"flex", "hflex", "hflex1", "flex1"}

        def scan(cs):
            try:
                cs.decompile()
            except Exception:
                return
            if any(isinstance(t, str) and t in flex for t in cs.program):
                self.has_flex = True

        try:
            for name in top.CharStrings.keys():
                scan(top.CharStrings[name])
                if self.has_flex:
                    break
            if not self.has_flex:
                subrs = list(self.font[tag].cff.GlobalSubrs)
                privs = [fd.Private for fd in top.FDArray] if hasattr(top, "FDArray") else [top.Private]
                for pv in privs:
                    subrs += list(getattr(pv, "Subrs", []) or [])
                for s in subrs:
                    scan(s)
                    if self.has_flex:
                        break
        except Exception:
            self.has_flex = True   # be conservative
        vs = getattr(top, "VarStore", None)
        if vs is not None:
            self.cff_regions = self._regions(vs.otVarStore)

    def extra_movetos(self, name, hb_rec):
        """number of moveto operators of the charstring that the engine merged into others"""
        if self._gs is None:
            self._gs = self.font.getGlyphSet()
        pen = hbft.RecPen()
        try:
            self._gs[name].draw(pen)
        except Exception:
            return 4
        m = sum(1 for op, _a in pen.value if op == "moveTo")
        k = sum(1 for op, _a in hb_rec if op == "moveTo")
        return max(0, m - k)

    def _regions(self, store):
        out = []
        for r in store.VarRegionList.Region:
            reg = {}
            for tag, ax in zip(self.axes, r.VarRegionAxis):
                reg[tag] = (ax.StartCoord, ax.PeakCoord, ax.EndCoord)
            out.append(reg)
        return out

    def store_sum(self, tag, loc):
        """sum of |scalar| over all regions of an ItemVariationStore-bearing table (upper bound
        for any item of the store)"""
        if tag not in self.font:
            return 0.0
        if tag not in self._stores:
            try:
                self._stores[tag] = self._regions(self.font[tag].table.VarStore)
            except Exception:
                self._stores[tag] = None
        regs = self._stores[tag]
        if regs is None:
            return None
        return sum(abs(_scalar(r, loc)) for r in regs)

    def cff_sum(self, loc):
        return sum(abs(_scalar(r, loc)) for r in self.cff_regions)

    def gvar_sum(self, name, loc):
        tot = 0.0
        for tv in self.gvar.get(name, []):
            tot += abs(_scalar({t: tuple(v) for t, v in tv.axes.items()}, loc))
        return tot

    def has_transform(self, name, depth=0):
        g = self.glyf[name]
        if not g.isComposite() or depth > 16:
            return False
        return any(hasattr(c, "transform") or hasattr(c, "firstPt") or
                   (c.glyphName in self.glyf.glyphs and self.has_transform(c.glyphName, depth + 1)) for c in g.components)

    def has_iup(self, name, depth=0):
        for tv in self.gvar.get(name, []):
            if any(c is None for c in tv.coordinates[:-4]):
                return True
        g = self.glyf[name]
        if g.isComposite() and depth < 16:
            return any(self.has_iup(c.glyphName, depth + 1) for c in g.components if c.glyphName in self.glyf.glyphs)
        return False

    def glyf_budget(self, name, loc, depth=0):
        """-> (budget, lsb_extra_x)"""
        g = self.glyf[name]
        S = self.gvar_sum(name, loc) if loc else 0.0
        own = 0.5 * (1 + S)
        if g.isComposite() and depth < 16:
            b = 0.0
            for c in g.components:
                if c.glyphName not in self.glyf.glyphs:
                    continue
                cb, _ = self.glyf_budget(c.glyphName, loc, depth + 1)
                rows = 1.0
                if hasattr(c, "transform"):
                    t = c.transform
                    rows = max(abs(t[0][0]) + abs(t[1][0]), abs(t[0][1]) + abs(t[1][1]), 1.0)
                if hasattr(c, "firstPt"):
                    # anchored by points: offset = difference of two budgeted points
                    b = max(b, rows * cb * 2 + cb + own)
                elif hasattr(c, "transform") and c.flags & 0x0800:
                    # SCALED_COMPONENT_OFFSET: the rounded offset is transformed as well
                    b = max(b, rows * (cb + own))
                else:
                    b = max(b, rows * cb + own)
            budget = b if b else own
        else:
            budget = own
        lsb_extra = 0.0
        if depth == 0 and g.numberOfContours != 0 and hasattr(g, "xMin"):
            if g.isComposite():
                # the engine shifts by lsb' - xMin': lsb' is rounded once, xMin' is recomputed from
                # the rounded components; with 2.14 transforms the original header xMin is itself a
                # rounded value whose rounding error is multiplied by the factor
                lsb_extra = budget + 0.5 * (1 + S) + (0.5 * self.factor if self.has_transform(name) else 0.0)
            elif self.hmtx[name][1] != g.xMin or loc:
                # shift = lsb' - xMin' with both rounded (under variation: left phantom point and bounds)
                lsb_extra = 1.0 * (1 + S)
        return budget, lsb_extra


def _diff_xy(rec0, rec1, s):
    """max |x1 - s*x0|, max |y1 - s*y0| for records of identical structure, else None"""
    if len(rec0) != len(rec1):
        return None
    dx = dy = 0.0
    for (o0, a0), (o1, a1) in zip(rec0, rec1):
        if o0 != o1 or len(a0) != len(a1):
            return None
        for p, q in zip(a0, a1):
            if (p is None) != (q is None):
                return None
            if p is not None:
                dx = max(dx, abs(q[0] - s * p[0]))
                dy = max(dy, abs(q[1] - s * p[1]))
    return dx, dy


def _drop_closing(rec):
    """remove a lineTo that lands exactly on the contour start right before closePath"""
    out = []
    start = None
    for op, args in rec:
        if op == "moveTo":
            start = tuple(args[0])
        elif op == "closePath" and out and out[-1][0] == "lineTo" and start is not None and tuple(out[-1][1][0]) == start:
            out.pop()
        out.append((op, args))
    return out


def _cff_delta_diff(rec0, rec1, s):
    """Compare consecutive-point differences (= the stored relative operands).
    HarfBuzz adds a closing lineTo when rounding leaves a contour unclosed, and a charstring may
    also close explicitly; so when the operator sequences differ they are compared without
    closing lines, and a moveTo is measured from the previous contour's last drawn point or from
    its start point, whichever fits better (the engine's current point is one of the two).
    -> (max control/line delta error, max curve-end delta error) or None if structure differs"""
    # a closing line is not a stored operand when the engine supplies it: its delta is minus the
    # sum of all the others; it is left out on both sides
    a, b = _drop_closing(rec0), _drop_closing(rec1)
    if [op for op, _ in a] != [op for op, _ in b]:
        return None
    p0 = p1 = (0.0, 0.0)
    s0 = s1 = (0.0, 0.0)       # start of the previous contour
    worst = worst_end = worst_move = 0.0
    for (op, pts0), (_op, pts1) in zip(a, b):
        if len(pts0) != len(pts1):
            return None
        for k, (q0, q1) in enumerate(zip(pts0, pts1)):
            ex = abs((q1[0] - p1[0]) - s * (q0[0] - p0[0]))
            ey = abs((q1[1] - p1[1]) - s * (q0[1] - p0[1]))
            if op == "moveTo":
                ex2 = abs((q1[0] - s1[0]) - s * (q0[0] - s0[0]))
                ey2 = abs((q1[1] - s1[1]) - s * (q0[1] - s0[1]))
                if max(ex2, ey2) < max(ex, ey):
                    ex, ey = ex2, ey2
                s0, s1 = q0, q1
            if op == "curveTo" and k == len(pts0) - 1:
                worst_end = max(worst_end, ex, ey)
            elif op == "moveTo":
                worst_move = max(worst_move, ex, ey)
            else:
                worst = max(worst, ex, ey)
            p0, p1 = q0, q1
    return worst, worst_end, worst_move


def _all_int(rec):
    for _op, args in rec:
        for p in args:
            if p is not None and (abs(p[0] - round(p[0])) > 1e-6 or abs(p[1] - round(p[1])) > 1e-6):
                return False
    return True


UNIT_FREE = ["cmap", "name", "fvar", "avar", "STAT", "GSUB", "gasp", "cvt ", "fpgm", "prep", "hdmx", "LTSH", "meta", "CPAL", "maxp"]


def _memory_boxes(font, order):
    """{name: (kind, xMin, yMin, xMax, yMax)} as held by the glyf table object"""
    glyf = font["glyf"]
    out = {}
    for name in order:
        g = glyf[name]
        kind = "composite" if g.isComposite() else "empty" if g.numberOfContours == 0 else "simple"
        if kind == "composite" and any(c.glyphName in glyf.glyphs and glyf[c.glyphName].isComposite() for c in g.components):
            kind = "nested"
        out[name] = (kind,) + tuple(getattr(g, a, None) for a in ("xMin", "yMin", "xMax", "yMax"))
    return out


def _compare_memory_boxes(ctx, case, b0, b1, U, U1, mode):
    """scale_upem scales the stored box of every glyph directly (one rounding per value)."""
    sF = Fraction(U1, U)
    tol = Fraction(0) if U1 % U == 0 else Fraction(1, 2)
    bad = Counter()
    first = {}
    for name, (kind, *v0) in b0.items():
        kind1, *v1 = b1[name]
        ctx.judged()
        for a, b in zip(v0, v1):
            if (a is None) != (b is None) or (a is not None and abs(b - sF * a) > tol):
                bad[kind] += 1
                first.setdefault(kind, (name, v0, v1))
                break
    for kind, n in bad.items():
        name, v0, v1 = first[kind]
        how = "unscaled" if v0 == v1 else "wrong"
        ctx.violation({"op": "scale", "tech": "glyf", "kind": "glyph-bbox", "where": "memory", "glyph": kind, "how": how},
                      "%s [upem %d -> %d, %s]: in-memory bounding box of %d %s glyphs not scaled; e.g. %r %r -> %r"
                      % (case["path"], U, U1, mode, n, kind, name, v0, v1),
                      {"font": case["path"], "glyph": name, "upem": U, "new_upem": U1, "load": mode})


def _paint_trace(h, gid):
    """Flattened HarfBuzz paint trace of a colour glyph: clip rectangles, glyph clips with the accumulated
    transform, colours, gradient kinds."""
    import uharfbuzz as hb

    ev = []
    stack = [(1.0, 0.0, 0.0, 1.0, 0.0, 0.0)]

    def mul(m, n):
        a, b, c, d, e, f = m
        A, B_, C, D, E, F = n
        return (a * A + c * B_, b * A + d * B_, a * C + c * D, b * C + d * D, a * E + c * F + e, b * E + d * F + f)

    pf = hb.PaintFuncs()
    pf.set_push_transform_func(lambda xx, yx, xy, yy, dx, dy, st: stack.append(mul(stack[-1], (xx, yx, xy, yy, dx, dy))))
    pf.set_pop_transform_func(lambda st: stack.pop() if len(stack) > 1 else None)
    pf.set_push_clip_glyph_func(lambda g, st: ev.append(("clip-glyph", g, stack[-1])))
    pf.set_push_clip_rectangle_func(lambda x0, y0, x1, y1, st: ev.append(("clip-rect", (x0, y0, x1, y1), stack[-1])))
    pf.set_pop_clip_func(lambda st: ev.append(("pop-clip",)))
    pf.set_push_group_func(lambda st: ev.append(("push-group",)))
    pf.set_pop_group_func(lambda mode, st: ev.append(("pop-group", int(mode))))
    pf.set_color_func(lambda color, fg, st: ev.append(("color", (color.red, color.green, color.blue, color.alpha), bool(fg))))
    pf.set_linear_gradient_func(lambda *a: ev.append(("linear-gradient",)))
    pf.set_radial_gradient_func(lambda *a: ev.append(("radial-gradient",)))
    pf.set_sweep_gradient_func(lambda *a: ev.append(("sweep-gradient",)))
    try:
        h.font.paint_glyph(gid, pf)
    except Exception:
        return None
    return ev


def _paint_trace_diff(t0, t1, s, tol_rect, full=True):
    """None when the trace after scaling is the original one scaled by s: clip rectangles x s within the
    rounding budget; the accumulated transform of every glyph clip has the same linear part (the scaler
    wraps the graph in PaintScale(s) and each PaintGlyph in PaintScale(1/s), both quantised to F2Dot14 or
    16.16) and its translation x s; colours identical."""
    if t0 is None or t1 is None:
        return None
    if [e[0] for e in t0] != [e[0] for e in t1]:
        return "paint operations differ: %r vs %r" % ([e[0] for e in t0][:8], [e[0] for e in t1][:8])
    q = 2.0 ** -14 * (abs(s) + abs(1 / s) + 1)
    for a, b in zip(t0, t1):
        if a[0] == "clip-rect":
            ma, mb = a[2], b[2]
            if any(abs(y - s * x) > tol_rect + 1e-6 for x, y in zip(_xf_rect(a[1], ma), _xf_rect(b[1], mb))):
                return "clip rectangle %r -> %r" % (a[1], b[1])
        elif not full:
            continue
        elif a[0] == "clip-glyph":
            if a[1] != b[1]:
                return "glyph clip gid %r -> %r" % (a[1], b[1])
            ma, mb = a[2], b[2]
            if any(abs(x - y) > q * (1 + abs(x)) for x, y in zip(ma[:4], mb[:4])):
                return "transform of glyph clip %d: linear part %r -> %r" % (a[1], tuple(round(v, 4) for v in ma[:4]), tuple(round(v, 4) for v in mb[:4]))
            if any(abs(y - s * x) > 0.02 + q * abs(s * x) for x, y in zip(ma[4:], mb[4:])):
                return "transform of glyph clip %d: translation %r -> %r, expected x%.4f" % (a[1], tuple(round(v, 3) for v in ma[4:]), tuple(round(v, 3) for v in mb[4:]), s)
        elif a[0] == "color":
            if a[1:] != b[1:]:
                return "colour %r -> %r" % (a[1], b[1])
        elif a != b:
            return "%r -> %r" % (a, b)
    return None


def _xf_rect(r, m):
    a, b, c, d, e, f = m
    x0, y0, x1, y1 = r
    return (a * x0 + c * y0 + e, b * x0 + d * y0 + f, a * x1 + c * y1 + e, b * x1 + d * y1 + f)


def _run_scale(case, ctx, rnd):
    from fontTools.ttLib.scaleUpem import scale_upem

    B0 = _prepare(ctx, case["path"], case.get("member"), case.get("gen"), case["seed"])
    mode = case["mode"]
    ref = _load_subject(ctx, case, B0)
    order = list(ref.getGlyphOrder())
    tech = _tech(ref)
    try:
        with ctx.lib("ensureDecompiled-control"):
            ref.ensureDecompiled()
        with ctx.lib("save-control"):
            R0 = corpus.save_bytes(ref)
    except Exception as e:
        if _is_invalid_cff2(ctx, e):
            return
        raise
    H0 = hbft.HB(R0)
    T0 = ST.sfnt_tables(R0)
    U = H0.upem
    target = _pick_target(case["target"], U, _maxabs(H0, T0), rnd)
    ctx.sample = {"font": case["path"], "op": "scale", "target": case["target"], "load": mode, "upem": U, "new_upem": target, "tech": tech}
    if target is None or target == U:
        ctx.skip("no representable target upem (coordinates would overflow int16)")
        return
    subj = _load_subject(ctx, case, B0)
    tabs = sorted(t for t in subj.keys() if t != "GlyphOrder")
    extra = {"load": mode, "tech": tech}
    _cur["obs"] = Counter()
    boxes0 = None
    if tech == "glyf":
        # in-memory bounding boxes of every glyph, read from a twin so the subject is not disturbed
        twin = _load_subject(ctx, case, B0)
        with ctx.lib("read-glyph-boxes"):
            boxes0 = _memory_boxes(twin, order)
    try:
        with ctx.lib("scale_upem", **extra):
            scale_upem(subj, target)
        if boxes0 is not None:
            with ctx.lib("read-glyph-boxes"):
                boxes1 = _memory_boxes(subj, order)
            _compare_memory_boxes(ctx, case, boxes0, boxes1, U, target, mode)
        with ctx.lib("save-after-scale", **dict(extra, colr="COLR" in tabs)):
            B1 = corpus.save_bytes(subj)
    except Exception as e:
        if _is_invalid_cff2(ctx, e):
            return
        raise
    visited = {k for k in _cur["obs"] if k.startswith("visit:")}
    for k in visited:
        ctx.note(k, _cur["obs"][k])
    # tables present but with no registered visitor (directly or through generic otData classes)
    from fontTools.ttLib import getTableClass
    for t in tabs:
        cls = getTableClass(t)
        direct = any(issubclass(cls, c) for c in _cur.get("direct_classes", ()) if isinstance(c, type) and c.__name__.startswith("table_"))
        generic = hasattr(subj[t], "table")
        if not direct and not generic:
            ctx.note("scaler-never-visits:" + t)
    _compare_scaled(ctx, case, rnd, R0, B1, order, tech, tabs, mode, U, target, T0)


def _compare_scaled(ctx, case, rnd, R0, B1, order, tech, tabs, mode, U, U1, T0, cp_of=None):
    s = U1 / U
    sF = Fraction(U1, U)
    int_factor = U1 % U == 0
    H0, H1 = hbft.HB(R0), hbft.HB(B1)
    base = {"op": "scale", "tech": tech}
    if case.get("history"):
        base["history"] = case["history"]
        base["step"] = case.get("_step")
    label = "%s [upem %d -> %d, %s]" % (case["path"], U, U1, mode)

    def viol(kind, what, **m):
        w = m.pop("witness", {})
        ctx.violation(dict(base, kind=kind, **m), "%s: %s" % (label, what), dict(w, font=case["path"], upem=U, new_upem=U1, load=mode))

    ctx.judged()
    if H1.upem != U1:
        viol("upem", "HarfBuzz reports upem %d" % H1.upem)
        return
    if H0.glyph_count != H1.glyph_count:
        viol("glyph-count", "glyph count %d -> %d" % (H0.glyph_count, H1.glyph_count))
        return
    insp = _load_inspect(ctx, case, R0)
    B = _Budget(insp, order, s)
    T1 = ST.sfnt_tables(B1)

    # ---- outlines and advances, default and variation locations ---------------
    locs = [None] + _hb_locations(H0, rnd, 2)[:3]
    exact_font = True
    for loc in locs:
        h0 = H0 if loc is None else hbft.HB(R0, variations=loc)
        h1 = H1 if loc is None else hbft.HB(B1, variations=loc)
        nloc = None
        if loc is not None:
            k0, k1 = h0.normalized_coords(), h1.normalized_coords()
            ctx.judged()
            if k0 != k1:
                viol("normalized-location", "the same user location normalises differently after scaling: %r vs %r" % (k0, k1),
                     table="avar" if "avar" in tabs else "fvar", witness={"location": loc})
                continue
            nloc = dict(zip(B.axes, k0))
        out_bad, adv_bad = Counter(), Counter()
        first = {}
        hsum = B.store_sum("HVAR", nloc) if nloc else 0.0
        vsum = B.store_sum("VVAR", nloc) if nloc else 0.0
        for gid, name in enumerate(order):
            if gid >= H0.glyph_count:
                break
            r0, r1 = h0.outline(gid), h1.outline(gid)
            exact = int_factor and _all_int(r0)
            if not exact:
                exact_font = False
            if name in B.varc and not exact:
                ctx.skip("not judged: VARC glyph under inexact scaling")
            elif tech == "glyf":
                if nloc and not exact and B.has_iup(name):
                    ctx.skip("not judged: IUP glyph at a variation location under inexact scaling")
                else:
                    if exact:
                        bx = by = TOL
                    else:
                        b, lx = B.glyf_budget(name, nloc)
                        bx, by = b + lx + TOL, b + TOL
                    d = _diff_xy(r0, r1, s)
                    ctx.judged()
                    if d is None:
                        ok, _st, why = fgeom.outlines_match(geom.transform_rec(r0, lambda p: (p[0] * s, p[1] * s)), r1, max(bx, by))
                        if not ok:
                            out_bad["structure"] += 1
                            first.setdefault("structure", (name, why))
                    elif d[0] > bx or d[1] > by:
                        out_bad["coords"] += 1
                        first.setdefault("coords", (name, "max error x %.3f (budget %.3f) y %.3f (budget %.3f)" % (d[0], bx, d[1], by)))
            elif tech in ("CFF ", "CFF2"):
                S = B.cff_sum(nloc) if nloc else 0.0
                unit = TOL if exact else 0.5 * (1 + S) + TOL
                d = _cff_delta_diff(r0, r1, s)
                ctx.judged()
                if d is None:
                    # structure differs: fall back to geometry with the accumulated budget
                    npts = sum(len(a) for _o, a in r0)
                    ok, _st, why = fgeom.outlines_match(geom.transform_rec(r0, lambda p: (p[0] * s, p[1] * s)), r1, unit * max(1, npts))
                    ctx.note("scale:cff-structure-fallback")
                    if not ok:
                        out_bad["structure"] += 1
                        first.setdefault("structure", (name, why))
                else:
                    end_unit = unit * (5 if B.has_flex and not exact else 1)
                    # a moveTo of the engine may stand for several moveto operators (empty subpaths)
                    move_unit = unit
                    if d[2] > unit:
                        move_unit = unit * (1 + B.extra_movetos(name, r0))
                    if d[0] > unit or d[1] > end_unit or d[2] > move_unit:
                        out_bad["operands"] += 1
                        first.setdefault("operands", (name, "relative-operand error line/control %.3f, curve end %.3f, moveto %.3f (budget %.3f / %.3f / %.3f)" % (d[0], d[1], d[2], unit, end_unit, move_unit)))
            # advances
            a0, a1 = h0.h_advance(gid), h1.h_advance(gid)
            ctx.judged()
            if nloc is None:
                tol_a = 0.0 if (int_factor) else 0.5
            else:
                S = hsum if "HVAR" in tabs else (B.gvar_sum(name, nloc) if tech == "glyf" else 0.0)
                if S is None:
                    S = len(B.axes) * 4.0
                tol_a = 0.0 if int_factor and S == 0 else 0.5 + 0.5 * S + 0.5 + 0.5 * s
                if int_factor:
                    tol_a = 0.5 + 0.5 * s      # HarfBuzz rounds the delta sum on both sides
            if a0 == -1 or a1 == -1:
                pass
            elif abs(a1 - s * a0) > tol_a + 1e-6:
                adv_bad["h"] += 1
                first.setdefault("h", (name, "advance %r -> %r (x%.4f = %.3f, budget %.3f)" % (a0, a1, s, a0 * s, tol_a)))
            v0, v1 = h0.v_advance(gid), h1.v_advance(gid)
            if "vmtx" in tabs:
                if nloc is None:
                    tol_v = 0.0 if int_factor else 0.5
                else:
                    S = vsum if "VVAR" in tabs else (B.gvar_sum(name, nloc) if tech == "glyf" else 0.0)
                    if S is None:
                        S = len(B.axes) * 4.0
                    tol_v = 0.5 + 0.5 * S + 0.5 + 0.5 * s
                    if int_factor:
                        tol_v = 0.5 + 0.5 * s
                ctx.judged()
                if abs(v1 - s * v0) > tol_v + 1e-6:
                    adv_bad["v"] += 1
                    first.setdefault("v", (name, "vertical advance %r -> %r (budget %.3f)" % (v0, v1, tol_v)))
        for k, n in out_bad.items():
            viol("outline", "%d glyphs at %s: %s; e.g. %r: %s" % (n, loc or "default", k, first[k][0], first[k][1]),
                 loc="default" if loc is None else "variation", how=k, factor="integer" if int_factor else "fractional",
                 witness={"glyph": first[k][0], "location": loc})
        for k, n in adv_bad.items():
            viol("advance", "%d glyphs at %s; e.g. %r: %s" % (n, loc or "default", first[k][0], first[k][1]),
                 which=k, loc="default" if loc is None else "variation",
                 metrics=("HVAR" if "HVAR" in tabs else "gvar-phantom" if "gvar" in tabs else "hmtx") if k == "h" else ("VVAR" if "VVAR" in tabs else "vmtx"),
                 factor="integer" if int_factor else "fractional", witness={"glyph": first[k][0], "location": loc})
    # ---- colour glyphs: extents (clip boxes) and paint traces, default and variation locations ------
    if "COLR" in tabs and H0.face.has_color_paint:
        for loc in locs:
            h0 = H0 if loc is None else hbft.HB(R0, variations=loc)
            h1 = H1 if loc is None else hbft.HB(B1, variations=loc)
            nloc = dict(zip(B.axes, h0.normalized_coords())) if loc is not None else None
            S = (B.store_sum("COLR", nloc) if nloc else 0.0)
            if S is None:
                S = len(B.axes) * 4.0
            # one rounding per stored value (default and each delta) and the engine's (outward) rounding on
            # both sides; judged for glyphs whose extents are a ClipBox (others are bounds of transformed
            # geometry, amplified by the paint transforms)
            tol_e = 0.0 if (int_factor and loc is None) else 0.5 * (1 + S) + 1.0 + s
            nb, ex = Counter(), {}
            for gid, name in enumerate(order):
                if gid >= H0.glyph_count or not H0.face.glyph_has_color_paint(gid):
                    continue
                if not H1.face.glyph_has_color_paint(gid):
                    nb["presence"] += 1
                    ex.setdefault("presence", (name, "colour paint lost"))
                    continue
                e0, e1 = h0.font.get_glyph_extents(gid), h1.font.get_glyph_extents(gid)
                tr0, tr1 = _paint_trace(h0, gid), _paint_trace(h1, gid)
                has_box = bool(tr0) and tr0[0][0] == "clip-rect"
                ctx.judged()
                if e0 is not None and e1 is not None and has_box:
                    t0 = (e0.x_bearing, e0.y_bearing, e0.width, e0.height)
                    t1 = (e1.x_bearing, e1.y_bearing, e1.width, e1.height)
                    if any(abs(b - s * a) > tol_e * (1 if i < 2 else 2) + 1e-6 for i, (a, b) in enumerate(zip(t0, t1))):
                        nb["extents"] += 1
                        ex.setdefault("extents", (name, "extents %r -> %r, expected x%.4f (budget %.2f)" % (t0, t1, s, tol_e)))
                ctx.judged()
                why = _paint_trace_diff(tr0, tr1, s, tol_e,
                                        full=(loc is None or COLR_VAR_PAINT_TRACE))
                if why:
                    nb["paint"] += 1
                    ex.setdefault("paint", (name, why))
            for k, n in nb.items():
                viol("colr", "%d colour glyphs at %s: %s; e.g. %r: %s" % (n, loc or "default", k, ex[k][0], ex[k][1]),
                     aspect=k, loc="default" if loc is None else "variation", witness={"glyph": ex[k][0], "location": loc})
    # ---- vertical origins (VORG / vmtx+glyf) -----------------------------------
    if "VORG" in tabs or "vmtx" in tabs:
        nb, ex = 0, None
        for gid, name in enumerate(order):
            o0, o1 = H0.font.get_glyph_v_origin(gid), H1.font.get_glyph_v_origin(gid)
            if o0 is None or o1 is None:
                continue
            tol_o = (0.0 if int_factor and exact_font else 0.5 + 0.5 + 1.0) + 1e-6   # origin = f(advance/2 rounding, yMax, tsb)
            if abs(o1[0] - s * o0[0]) > tol_o + s or abs(o1[1] - s * o0[1]) > tol_o:
                nb += 1
                ex = ex or (name, o0, o1)
        ctx.judged()
        if nb:
            viol("v-origin", "%d glyphs: vertical origin not scaled; e.g. %r %r -> %r" % (nb, ex[0], ex[1], ex[2]),
                 table="VORG" if "VORG" in tabs else "vmtx", witness={"glyph": ex[0]})
    # ---- cmap, names ------------------------------------------------------------
    ctx.judged()
    cps = [c for c in sorted(H0.face.unicodes) if (H0.nominal(c) or 0) < H0.glyph_count]
    if any(H0.nominal(c) != H1.nominal(c) for c in cps):
        viol("cmap", "character map changed")
    ctx.judged()
    if _layout_tags(H0.face) != _layout_tags(H1.face):
        viol("layout-tags", "script / language / feature tags of GSUB/GPOS changed")
    # ---- fixed-layout metric tables (struct readers) ----------------------------
    comp_budget = 0.5
    any_transform = False
    if tech == "glyf":
        try:
            comp_budget = max([B.glyf_budget(n, None)[0] for n in order] + [0.5])
            any_transform = any(B.has_transform(n) for n in order)
        except Exception:
            comp_budget = 4.0
            any_transform = True
    for tag, rd in ST.READERS.items():
        if (tag in T0) != (tag in T1):
            viol("table-presence", "table %s %s" % (tag, "dropped" if tag in T0 else "added"), table=tag)
            continue
        if tag not in T0:
            continue
        try:
            d0, d1 = rd(T0[tag]), rd(T1[tag])
        except struct.error:
            ctx.note("struct-reader-short-table:" + tag)
            continue
        for k, v0 in d0.items():
            if k not in d1:
                viol("metric", "%s.%s disappeared" % (tag, k), field="%s.%s" % (tag, k), how="missing")
                continue
            v1 = d1[k]
            if k in ST.VOLATILE.get(tag, ()):
                continue
            ctx.judged()
            if k in ST.DESIGN.get(tag, ()):
                tol_m = 0.0 if int_factor else 0.5
                if abs(v1 - sF * v0) > tol_m:
                    how = "unscaled" if v1 == v0 else "scaled-twice" if abs(v1 - sF * sF * v0) <= 0.5 else "wrong"
                    viol("metric", "%s.%s %r -> %r, expected %s" % (tag, k, v0, v1, float(sF * v0)), field="%s.%s" % (tag, k), how=how)
            elif k in ST.DERIVED.get(tag, ()):
                if mode == "bin-keepbbox":
                    # recalcBBoxes=False: the compiler keeps the values scale_upem stored (one rounding each)
                    tol_m = 0.0 if int_factor else 0.5
                elif tech != "glyf":
                    continue      # recomputed from charstring bounds: relative operands accumulate
                else:
                    # (boxes of transformed composites are rounded in the original too: 0.5 x factor)
                    tol_m = 0.0 if (int_factor and exact_font) else 2 * comp_budget + 1.5 + (0.5 * s if any_transform else 0.0)
                if abs(v1 - sF * v0) > tol_m:
                    viol("metric", "%s.%s %r -> %r, expected about %s" % (tag, k, v0, v1, float(sF * v0)), field="%s.%s" % (tag, k), how="derived")
            elif tag == "head" and k == "flags" and (v0 & ~0x2) == (v1 & ~0x2):
                pass    # bit 1 (lsb at x=0) is recomputed from the scaled, rounded lsb / xMin pairs
            elif v1 != v0:
                viol("metric", "%s.%s is not in design units but changed %r -> %r" % (tag, k, v0 if not isinstance(v0, bytes) else v0[:16], v1 if not isinstance(v1, bytes) else v1[:16]),
                     field="%s.%s" % (tag, k), how="unit-free-changed")
    # side bearings
    for tag in ("hmtx", "vmtx"):
        if tag in T0 and tag in T1:
            try:
                m0, m1 = ST.read_mtx(T0, tag), ST.read_mtx(T1, tag)
            except struct.error:
                continue
            nb, ex = 0, None
            for gid, ((a0, b0), (a1, b1)) in enumerate(zip(m0, m1)):
                tol_m = 0.0 if int_factor else 0.5
                if abs(b1 - sF * b0) > tol_m or abs(a1 - sF * a0) > tol_m:
                    nb += 1
                    ex = ex or (gid, (a0, b0), (a1, b1))
            ctx.judged()
            if nb or len(m0) != len(m1):
                viol("metric", "%s: %d records not scaled; e.g. gid %s %r -> %r" % (tag, nb, ex[0] if ex else "-", ex[1] if ex else "-", ex[2] if ex else "-"),
                     field=tag, how="records")
    if "VORG" in T0 and "VORG" in T1:
        v0, v1 = ST.read_vorg(T0["VORG"]), ST.read_vorg(T1["VORG"])
        ctx.judged()
        tol_m = 0.0 if int_factor else 0.5
        if abs(v1["default"] - sF * v0["default"]) > tol_m:
            viol("metric", "VORG.defaultVertOriginY %r -> %r" % (v0["default"], v1["default"]), field="VORG.defaultVertOriginY", how="unscaled" if v0["default"] == v1["default"] else "wrong")
        badr = [g for g in v0["records"] if g not in v1["records"] or abs(v1["records"][g] - sF * v0["records"][g]) > tol_m]
        if badr:
            g = badr[0]
            viol("metric", "VORG: %d vertical origin records not scaled; e.g. gid %d %r -> %r" % (len(badr), g, v0["records"][g], v1["records"].get(g)),
                 field="VORG.VOriginRecords", how="unscaled" if v1["records"].get(g) == v0["records"][g] else "wrong")
    # ---- CFF FontMatrix (spec-level Top DICT reader) -------------------------------
    try:
        fm0, fm1 = ST.cff_font_matrix(T0), ST.cff_font_matrix(T1)
    except Exception:
        fm0 = fm1 = None
        ctx.note("cff-topdict-reader-failed")
    if fm0 and fm1:
        ctx.judged()
        (m0, ex0), (m1, ex1) = fm0, fm1
        want = [x / s for x in m0]
        if any(abs(a - b) > 1e-6 * max(abs(b), 1e-4) + 1e-9 for a, b in zip(m1, want)):
            viol("metric", "CFF FontMatrix %s (%s) -> %s (%s), expected %s: glyph space no longer matches the new em"
                 % (m0[:1] + m0[3:4], "explicit" if ex0 else "default", m1[:1] + m1[3:4], "explicit" if ex1 else "absent = default", want[:1] + want[3:4]),
                 field="CFF.FontMatrix", how="not-written" if not ex1 else "wrong")
    try:
        pw0, pw1 = ST.cff_private_widths(T0), ST.cff_private_widths(T1)
    except Exception:
        pw0 = pw1 = None
    if pw0 is not None and pw1 is not None:
        for k, v0 in pw0.items():
            ctx.judged()
            v1 = pw1.get(k, 0 if k != "BlueValues" else [])
            tol_m = (0.0 if int_factor and float(v0 if not isinstance(v0, list) else 0).is_integer() else 0.5) + 1e-9
            if isinstance(v0, list):
                # stored as deltas; the values themselves (running sums) are what is scaled and rounded
                import itertools
                a0, a1 = list(itertools.accumulate(v0)), list(itertools.accumulate(v1))
                if len(v1) != len(v0) or any(abs(b - s * a) > 0.5 + 1e-9 for a, b in zip(a0, a1)):
                    viol("metric", "CFF Private %s %r -> %r" % (k, v0, v1), field="CFF.Private." + k, how="wrong")
            elif abs(v1 - s * v0) > tol_m:
                viol("metric", "CFF Private %s %r -> %r, expected %s" % (k, v0, v1, v0 * s), field="CFF.Private." + k,
                     how="unscaled" if v1 == v0 else "wrong")
    # ---- glyf composite records ---------------------------------------------------
    if "glyf" in T0 and "glyf" in T1 and "loca" in T0:
        try:
            c0, _h0 = ST.read_composites(T0)
            c1, _h1 = ST.read_composites(T1)
        except struct.error:
            c0 = c1 = None
        if c0 is not None:
            # glyph headers (numberOfContours, bounding box) of every glyph, read by struct
            nb = Counter()
            ex = {}
            if sorted(_h0) != sorted(_h1):
                viol("glyph-bbox", "set of non-empty glyphs changed", where="saved", glyph="any", how="set")
            else:
                for gid in _h0:
                    name = order[gid] if gid < len(order) else "gid%d" % gid
                    (n0, *b0), (n1, *b1) = _h0[gid], _h1[gid]
                    kind = "simple" if n0 >= 0 else "composite"
                    ctx.judged()
                    if mode == "bin-keepbbox":
                        tol_b = 0.0 if int_factor else 0.5
                    elif kind == "simple" or name not in B.glyf.glyphs:
                        tol_b = 0.0 if int_factor else 0.5            # min/max of rounded = rounded min/max
                    elif int_factor and not B.has_transform(name):
                        tol_b = 0.0
                    else:
                        tol_b = B.glyf_budget(name, None)[0] + 0.5 * s + 0.5   # boxes are rounded on both sides
                    if n0 != n1 or any(abs(y - sF * x) > tol_b + 1e-9 for x, y in zip(b0, b1)):
                        nb[kind] += 1
                        ex.setdefault(kind, (name, _h0[gid], _h1[gid], tol_b))
                for kind, n in nb.items():
                    name, a, b, tol_b = ex[kind]
                    viol("glyph-bbox", "glyf header of %d %s glyphs not scaled; e.g. %r %r -> %r (budget %.2f)" % (n, kind, name, a, b, tol_b),
                         where="saved", glyph=kind, how="unscaled" if a[1:] == b[1:] else "wrong", keepbbox=mode == "bin-keepbbox",
                         witness={"glyph": name})
            if mode == "bin-keepbbox" and not any(t in tabs for t in ("COLR", "sbix", "CBDT", "SVG ", "EBDT", "VARC")):
                # (colour and VARC glyphs get their extents from clip boxes / layers / bitmaps / assembled components, not from the glyf header)
                nb, ex = 0, None
                for gid in range(H0.glyph_count):
                    e0, e1 = H0.font.get_glyph_extents(gid), H1.font.get_glyph_extents(gid)
                    if e0 is None or e1 is None:
                        continue
                    t0 = (e0.x_bearing, e0.y_bearing, e0.width, e0.height)
                    t1 = (e1.x_bearing, e1.y_bearing, e1.width, e1.height)
                    tol_e = 0.0 if int_factor else 1.0      # width/height are differences of two rounded values
                    if any(abs(y - s * x) > tol_e + 1e-6 for x, y in zip(t0, t1)):
                        nb += 1
                        ex = ex or (order[gid] if gid < len(order) else gid, t0, t1)
                ctx.judged()
                if nb:
                    viol("glyph-bbox", "HarfBuzz extents of %d glyphs not scaled; e.g. %r %r -> %r" % (nb, ex[0], ex[1], ex[2]),
                         where="extents", glyph="any", how="wrong", keepbbox=True, witness={"glyph": ex[0]})
            ctx.judged()
            if sorted(c0) != sorted(c1):
                viol("composite", "set of composite glyphs changed", how="set")
            else:
                for gid in c0:
                    bad = None
                    if len(c0[gid]) != len(c1[gid]):
                        bad = "component count"
                    else:
                        for (fl0, gi0, a0, b0, t0), (fl1, gi1, a1, b1, t1) in zip(c0[gid], c1[gid]):
                            if gi0 != gi1:
                                bad = "component glyph"
                            elif t0 != t1:
                                bad = "2.14 transform changed"
                            elif (fl0 & ~ST.ARG_WORDS) != (fl1 & ~ST.ARG_WORDS):
                                bad = "component flags changed"
                            elif fl0 & ST.ARGS_XY:
                                tol_m = 0.0 if int_factor else 0.5
                                if abs(a1 - sF * a0) > tol_m or abs(b1 - sF * b0) > tol_m:
                                    bad = "offset not scaled"
                            elif (a0, b0) != (a1, b1):
                                bad = "anchor point numbers changed"
                    if bad:
                        viol("composite", "gid %d: %s (%r -> %r)" % (gid, bad, c0[gid][:2], c1[gid][:2]), how=bad)
                        break
    # ---- unit-free tables byte-identical to the control save ------------------------
    for tag in UNIT_FREE:
        if tag in T0 or tag in T1:
            ctx.judged()
            if T0.get(tag) != T1.get(tag):
                viol("table-changed", "table %r carries no design units but its bytes changed (%s -> %s bytes)" % (tag, len(T0.get(tag, b"")), len(T1.get(tag, b""))),
                     table=tag, avar_version=(struct.unpack(">H", T0["avar"][:2])[0] if tag == "avar" and "avar" in T0 else None))
    # ---- metrics through HarfBuzz (MVAR-aware) ---------------------------------------
    import uharfbuzz as hb
    for mt in hb.OTMetricsTag:
        try:
            p0, p1 = H0.font.get_metric_position(mt), H1.font.get_metric_position(mt)
        except Exception:
            continue
        if p0 is None or p1 is None:
            if (p0 is None) != (p1 is None):
                viol("metric", "metric %s presence changed" % mt.name, field="hb:" + mt.name, how="presence")
            continue
        ctx.judged()
        tol_m = 0.0 if int_factor else 0.5
        if mt.name.endswith(("CARET_RISE", "CARET_RUN")):
            # slope components: a ratio, not a length
            if p0 != p1:
                viol("metric", "caret slope component %s changed %r -> %r" % (mt.name, p0, p1), field="hb:" + mt.name, how="unit-free-changed")
            continue
        if abs(p1 - s * p0) > tol_m + 1e-6:
            viol("metric", "HarfBuzz metric %s %r -> %r, expected %s" % (mt.name, p0, p1, p0 * s), field="hb:" + mt.name, how="unscaled" if p0 == p1 else "wrong")
    # ---- shaping ------------------------------------------------------------------------
    involved, feats, scripts, nl = _involved(insp, order)
    texts = _texts(rnd, involved, order, case.get("thorough"))
    if len(texts) > 1200:
        texts = texts[:len(involved)] + rnd.sample(texts[len(involved):], 1200 - len(involved)) if len(involved) < 1200 else texts[:1200]
    targeted = _targeted_pairs(insp, order, rnd, 700 if case.get("thorough") else 400)
    texts = targeted + texts
    ctx.note("scale:targeted-gpos-record-texts", len(targeted))
    idx = {g: i for i, g in enumerate(order)}
    n_active = 0
    shape_locs = [None]
    if "fvar" in tabs and int_factor and exact_font:
        shape_locs += _hb_locations(H0, rnd, 1)[:1]
    for script, features in _shape_configs(feats, scripts):
        for vloc in shape_locs:
            h0 = H0 if vloc is None else hbft.HB(R0, variations=vloc)
            h1 = H1 if vloc is None else hbft.HB(B1, variations=vloc)
            n_bad, ex = 0, None
            for t in texts:
                cps_t = [(cp_of[g] if cp_of else PUA + idx[g]) for g in t]
                r0 = h0.shape(cps_t, features, script=script)
                r1 = h1.shape(cps_t, features, script=script)
                if vloc is None and int_factor and exact_font:
                    tol_p = 0.0
                elif int_factor:
                    tol_p = (0.5 + 0.5 * s) * (1 + 2 * nl) * len(t)
                else:
                    tol_p = 0.5 * (1 + 2 * nl) * len(t) + TOL
                ok = len(r0) == len(r1) and all(x[0] == y[0] and x[1] == y[1] for x, y in zip(r0, r1))
                if ok:
                    for x, y in zip(r0, r1):
                        if any(abs(y[k] - s * x[k]) > tol_p + 1e-6 for k in (2, 3, 4, 5)):
                            ok = False
                            break
                if not ok:
                    n_bad += 1
                    ex = ex or (t, r0, r1, tol_p)
                if len(r0) != len(t) or any(x[4] or x[5] for x in r0) or any(x[2] != h0.h_advance(x[0]) for x in r0):
                    n_active += 1
            ctx.judged(len(texts))
            if n_bad:
                seq = [x[0] for x in ex[1]] != [x[0] for x in ex[2]]
                viol("shaping", "%d of %d texts (script %s, features %s): positions are not the original x %.4f; e.g. %r: %r vs %r (budget %.2f)"
                     % (n_bad, len(texts), script, "all" if features else "default", s, ex[0], ex[1][:5], ex[2][:5], ex[3]),
                     differs="glyphs" if seq else "positions", factor="integer" if int_factor else "fractional",
                     layout="+".join(t for t in ("GPOS", "kern", "GDEF") if t in tabs), witness={"text": list(ex[0]), "location": vloc})
    ctx.note("scale:texts-with-active-layout", n_active)
    ctx.sample["texts"] = len(texts)
    ctx.sample["exact"] = bool(int_factor and exact_font)
    layout = "+".join(t for t in ("GPOS", "GDEF", "kern", "MATH", "COLR", "BASE", "HVAR", "VVAR", "MVAR", "gvar", "avar", "VORG", "vmtx", "VARC") if t in tabs)
    fclass = "x2" if U1 == 2 * U else "int" if int_factor else "half" if 2 * U1 == U else "frac"
    ctx.nontrivial("scale/%s/%s/%s/%s" % (tech.strip(), mode, fclass, layout))


# ---------------------------------------------------------------- operation histories on one TTFont
HISTORIES = {
    "reorder,same-list-x2": ["reorder:random", "reorder-same-list:rotate", "reorder-same-list:transpose"],
    "reorder,fresh-list": ["reorder:rotate", "reorder:random"],
    "reorder,scale,reorder": ["reorder:random", "scale:double", "reorder:reverse-tail"],
    "reorder,scale,same-list": ["reorder:transpose", "scale:half", "reorder-same-list:random"],
    "scale,scale-back": ["scale:ratio", "scale-back"],
    "scale,reorder,scale-back": ["scale:1000<->2048", "reorder:random", "scale-back"],
}


def _run_history(case, ctx, rnd):
    """Several operations in a row on ONE TTFont object, compiling all tables after each; every
    step is judged against the bytes saved after the previous step (which were judged
    themselves), through the same comparators as the single operations."""
    from fontTools.ttLib.reorderGlyphs import reorderGlyphs
    from fontTools.ttLib.scaleUpem import scale_upem

    B0 = _prepare(ctx, case["path"], case.get("member"), case.get("gen"), case["seed"])
    mode = case["mode"]
    ref = _load_subject(ctx, case, B0)
    order0 = list(ref.getGlyphOrder())
    tech = _tech(ref)
    try:
        with ctx.lib("ensureDecompiled-control"):
            ref.ensureDecompiled()
        with ctx.lib("save-control"):
            prev = corpus.save_bytes(ref)
    except Exception as e:
        if _is_invalid_cff2(ctx, e):
            return
        raise
    cp_of = {g: PUA + i for i, g in enumerate(order0)}
    subj = _load_subject(ctx, case, B0)
    tabs = sorted(t for t in subj.keys() if t != "GlyphOrder")
    U0 = U = hbft.HB(prev).upem
    ctx.sample = {"font": case["path"], "op": "history", "history": case["history"], "steps": case["steps"], "load": mode,
                  "glyphs": len(order0), "tech": tech}
    prev_order = order0
    L = None
    extra = {"load": mode, "tech": tech, "history": case["history"]}
    for k, step in enumerate(case["steps"]):
        what, _, arg = step.partition(":")
        ck = dict(case, perm=step, _step=k + 1)
        try:
            if what in ("reorder", "reorder-same-list"):
                new = _permute(arg, prev_order, rnd)
                if new == prev_order:
                    ctx.skip("permutation is the identity (fewer than 3 glyphs)")
                    return
                if what == "reorder-same-list" and L is not None:
                    L[:] = new            # the caller's own list, which the font now holds, permuted in place
                else:
                    L = list(new)
                with ctx.lib("reorderGlyphs", step=k + 1, **extra):
                    reorderGlyphs(subj, L)
                with ctx.lib("save-after-reorder", step=k + 1, **extra):
                    cur = corpus.save_bytes(subj)
                _compare_reordered(ctx, ck, rnd, prev, cur, prev_order, list(new), tech, tabs, mode, cp_of)
                prev_order = list(new)
            else:
                Hp = hbft.HB(prev)
                Tp = ST.sfnt_tables(prev)
                target = U0 if what == "scale-back" else _pick_target(arg, U, _maxabs(Hp, Tp), rnd)
                if target is None or target == U:
                    ctx.skip("no representable target upem")
                    return
                with ctx.lib("scale_upem", step=k + 1, **extra):
                    scale_upem(subj, target)
                with ctx.lib("save-after-scale", step=k + 1, colr="COLR" in tabs, **extra):
                    cur = corpus.save_bytes(subj)
                _compare_scaled(ctx, ck, rnd, prev, cur, prev_order, tech, tabs, mode, U, target, Tp, cp_of)
                U = target
        except Exception as e:
            if _is_invalid_cff2(ctx, e):
                return
            raise
        prev = cur
    layout = "+".join(t for t in ("GSUB", "GPOS", "gvar", "HVAR", "COLR", "CFF ", "CFF2") if t in tabs)
    ctx.nontrivial("history/%s/%s/%s/%s" % (case["history"], tech.strip(), mode, layout))


# ---------------------------------------------------------------- run
def run_case(case, ctx):
    rnd = random.Random("%s/%s" % (case["id"], case["seed"]))
    _cur["obs"] = Counter()
    if case["op"] == "reorder":
        _run_reorder(case, ctx, rnd)
    elif case["op"] == "history":
        _run_history(case, ctx, rnd)
    else:
        _run_scale(case, ctx, rnd)
    for k, v in _cur["obs"].items():
        if k.startswith(("rule:", "reorderGlyphs", "scale_upem")):
            ctx.note(k, v)


def coverage_extra(results):
    obs = Counter()
    for r in results:
        obs.update(r.get("obs", {}))
    return {
        "reorder_rules_fired": {k[5:]: v for k, v in sorted(obs.items()) if k.startswith("rule:")},
        "scaler_visit_functions_fired": {k[6:]: v for k, v in sorted(obs.items()) if k.startswith("visit:")},
        "tables_present_never_visited_by_scaler": {k.split(":", 1)[1]: v for k, v in sorted(obs.items()) if k.startswith("scaler-never-visits:")},
        "texts_with_active_layout": {"reorder": obs.get("reorder:texts-with-active-layout", 0), "scale": obs.get("scale:texts-with-active-layout", 0)},
    }
