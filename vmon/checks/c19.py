"""C19 — design sources survive being written and read back.

Monitors sit on the library's real writers/readers (designspaceLib, glifLib, ufoLib,
filenames, plistlib, converters).  Each evaluation re-reads what the writer produced
and compares it with the input after the *documented* normalisations (computed by
vmon/oracle/c19_expect.py), with an own structural comparison (c19_model.deep_diff);
file-name invariants are judged by an own predicate at every call; axis maps are
judged against an exact Fraction model.  Drivers live in vmon/gen/c19_drivers.py.
"""
import copy
import os
import random
from fractions import Fraction

from vmon import hooks
from vmon.case import lib_frame
from vmon.gen import c19_state as st
from vmon.oracle import c19_expect as ex
from vmon.oracle import c19_model as md

PROPERTY = "C19"
LEVEL = "exploration"
RULE = ("a case is a batch of generated (or corpus) designspace documents / glyph records / UFO parts / plist trees / "
        "glyph-name sequences of one structural class; every object is pushed through the real writer whose post-condition "
        "monitor re-reads the output and compares with the input after documented normalisations; a case is non-trivial and "
        "distinct by the structural class actually observed in the written object (format version + set of optional "
        "constructs present, name-sequence class + problem-free verdict reached, plist value classes, map shape)")
ASSUMPTIONS = [
    "designspace numbers are drawn with at most 4 fractional digits (the writer prints '%f': 6 decimals; finer values are a separate, reported finding)",
    "localised name dictionaries do not use the key 'en' (the writers store the English name in the plain attribute)",
    "format-4 instance flags kerning/info are left at their default True in the main generator (False is a separate, reported finding)",
    "GLIF notes are generated in the writer's normal form (lines stripped, no blank lines); notes are compared after that normalisation on both sides",
    "GLIF 1 records only use GLIF 1 features (no identifiers/image/guidelines, named anchors) except in dedicated down-conversion classes",
    "case-insensitive equality of file names is simple (one-to-one, per character) Unicode case folding, as implemented by the upper-case tables of NTFS/HFS+; multi-character foldings (sharp s/ss, fi ligature) are not identified",
    "reserved DOS device names: CON PRN AUX NUL CLOCK$ COM1-9 LPT1-9, in any dot-separated part",
    "axis-map inverse: exact for integral knots below 2^26, otherwise within 32*2^-52*M*S^2 (M largest magnitude, S largest slope or inverse slope)",
    "stdlib plistlib and xml.etree are trusted as independent readers; Fraction arithmetic is exact",
    "the sandbox file system is case-sensitive: collisions are detected on a case-folded shadow directory created with open(..., 'x')",
]
CASE_TIMEOUT = 240
MANIFEST = {
    "text": "Exploration with post-condition monitors on the real writers: DesignSpaceDocument.write/tostring, glifLib._writeGlyphToBytes (behind writeGlyphToString and GlyphSet.writeGlyph), plistlib.dumps/totree, ufoLib.filenames and misc.filenames userNameToFileName/handleClash1/handleClash2, AxisDescriptor.map_forward/map_backward, converters.convertUFO1OrUFO2KerningToUFO3Kerning; UFOWriter/UFOReader are driven end to end in scratch directories for UFO 1, 2 and 3 including up- and down-conversion. Every written object is re-read and compared with the input after the documented normalisations by an own structural comparison; the written XML is additionally parsed with the standard library; generated file names are judged by an own legality predicate at each call and really created in a case-folded shadow directory; axis maps are judged against an exact Fraction model. Workload: generated documents of every structural class plus every corpus designspace, GLIF, plist and UFO. Tests cannot settle this because they round-trip a few stored documents.",
    "note": "Trusted base: vmon/oracle/c19_model.py and c19_expect.py (own comparison, expected-value model written from the designspace/UFO documentation), Python's plistlib, xml.etree and Fraction. A monitor decides only the executions produced: 'held' means no produced document, glyph, name sequence or tree violated the property.",
    "technique": "post-condition monitors with re-read and structural comparison; per-call invariant on the set of issued file names; exact rational reference model for axis maps; end-to-end UFO 1/2/3 conversion drivers",
    "design_ref": "DESIGN.md §4 C19",
}
EXHAUSTIVE = {"quick": False, "thorough": False}

REQUIRED_MONITORS = [
    "ds.tostring", "ds.write", "ds.read", "ds.fromstring", "axis.map_forward", "axis.map_backward",
    "glif._writeGlyphToBytes", "glif.writeGlyphToString", "glif.readGlyphFromString", "GlyphSet.writeGlyph",
    "GlyphSet.readGlyph", "ufoLib.filenames.userNameToFileName", "ufoLib.filenames.handleClash1",
    "misc.filenames.userNameToFileName", "plist.dumps", "plist.loads", "plist.totree", "plist.fromtree",
    "converters.kerning", "UFOWriter.writeInfo", "UFOReader.readInfo", "UFOWriter.writeKerning", "UFOReader.readKerning",
    "UFOWriter.writeGroups", "UFOReader.readGroups", "UFOWriter.writeLib", "UFOReader.readLib",
    "UFOWriter.writeLayerContents",
]


# ---------------------------------------------------------------------------------
# designspace judge
# ---------------------------------------------------------------------------------
def _ds_class(s):
    f = []
    if any(a["kind"] == "discrete" for a in s["axes"]):
        f.append("d")
    if any(a["map"] for a in s["axes"]):
        f.append("m")
    if any(a["axisLabels"] or a["axisOrdering"] is not None for a in s["axes"]):
        f.append("L")
    if any(a["hidden"] for a in s["axes"]):
        f.append("h")
    if s["rules"]:
        f.append("r%d" % min(3, max([len(r["conditionSets"]) for r in s["rules"]] + [0])))
        if s["rulesProcessingLast"]:
            f.append("pl")
    if s["variableFonts"]:
        f.append("v")
    if s["locationLabels"]:
        f.append("l")
    if any(i["userLocation"] for i in s["instances"]):
        f.append("u")
    if any(i["locationLabel"] for i in s["instances"]):
        f.append("il")
    if any(isinstance(v, tuple) for i in s["instances"] for v in i["designLocation"].values()):
        f.append("a")
    if any(i["localisedStyleName"] or i["localisedFamilyName"] for i in s["instances"]) or any(x["localisedFamilyName"] for x in s["sources"]):
        f.append("n")
    if any(i["glyphs"] for i in s["instances"]):
        f.append("g")
    if s["lib"] or any(i["lib"] for i in s["instances"]):
        f.append("b")
    if s["axisMappings"]:
        f.append("M")
    if any(x["copyLib"] or x["muteKerning"] or x["mutedGlyphNames"] or x["muteInfo"] for x in s["sources"]):
        f.append("f")
    if any(x["layerName"] for x in s["sources"]):
        f.append("y")
    return "ds/v%d>%d/%s" % (s["formatTuple"][0], ex.effective_format(s)[0], "".join(f))


def _exc_mech(fmt, e, what="reader rejects writer output"):
    fr = lib_frame(e)
    return {"kind": "roundtrip", "fmt": fmt, "what": what, "type": type(e).__name__, "func": fr[1] if fr else None}


def _ds_mech(what, d):
    if d[1] == "number-precision":
        return {"kind": "roundtrip", "fmt": "designspace", "what": "number precision lost", "why": "number-precision"}
    return {"kind": "roundtrip", "fmt": "designspace", "what": what, "field": ex.ds_field(d[0]), "why": d[1]}


def judge_designspace(pre, data, docpath, reread, via):
    """pre: snapshot before the write; data: the XML produced; reread(): library read of it."""
    if not pre["axes"] and (pre["sources"] or pre["instances"] or pre["locationLabels"]):
        st.note("ds/precondition:no-axes")
        return
    expect = ex.expected_after(pre, docpath)
    st.judged()
    # (a) the XML itself, read with the standard library
    try:
        facts, usage = md.ds_xml_facts(data)
    except Exception as e:  # not well-formed
        st.bad({"kind": "roundtrip", "fmt": "designspace", "what": "writer output is not well-formed XML", "type": type(e).__name__},
               "designspace %s: output not parseable by xml.etree: %s" % (via, e), data=data[:400])
        return
    for k, n in usage.items():
        st.note("ds-xml:" + k, n)
    want_facts = ex.facts_expected(expect)
    for k in want_facts:
        d = md.deep_diff(want_facts[k], facts.get(k), md.NUM_VALUE, k)
        if d:
            st.bad(_ds_mech("written XML does not carry the data", d),
                   "designspace %s: XML differs from the document at %s (%s): want %s, XML has %s"
                   % (via, d[0], d[1], st.short(d[2]), st.short(d[3])), path=d[0], xml=data[:1500])
            return
    if ".".join(str(i) for i in expect["formatTuple"]) != facts["format"] and tuple(int(x) for x in facts["format"].split(".")) != tuple(expect["formatTuple"]):
        st.bad({"kind": "roundtrip", "fmt": "designspace", "what": "format attribute", "field": "format"},
               "designspace %s: written format %r, expected %r" % (via, facts["format"], expect["formatTuple"]))
    # (b) the library's reader
    try:
        doc2 = reread()
    except Exception as e:
        st.bad(_exc_mech("designspace", e), "designspace %s: the reader raised %s on the writer's own output: %s"
               % (via, type(e).__name__, str(e)[:200]), xml=data[:1500])
        return
    got = ex.normpaths(ex.snap_doc(doc2))
    expect = ex.normpaths(expect)
    d = md.deep_diff(expect, got, md.NUM_VALUE)
    if d:
        st.bad(_ds_mech("read(write(d)) != d", d),
               "designspace %s: %s differs (%s): wrote %s, read back %s" % (via, d[0], d[1], st.short(d[2]), st.short(d[3])),
               path=d[0], want=d[2], got=d[3], xml=data[:1500])
    else:
        st.key(_ds_class(pre))


# ---------------------------------------------------------------------------------
# setup: monitors
# ---------------------------------------------------------------------------------
def setup():
    from fontTools import designspaceLib as DS
    from fontTools.ufoLib import glifLib, filenames as ufn, converters
    from fontTools.misc import filenames as mfn, plistlib as PL
    import fontTools.ufoLib as UL
    import fontTools.ttLib.tables._g_l_y_f  # noqa: F401  (alias of misc.filenames gets rebound)
    import plistlib as stdpl

    # ---- designspace ----------------------------------------------------------
    def pre_doc(a, kw):
        return {"snap": ex.snap_doc(a[0])}

    def post_tostring(s, a, kw, res, exc):
        if exc is not None or s is None:
            return
        data = res.encode("utf-8") if isinstance(res, str) else res
        judge_designspace(s["snap"], data, None, lambda: DS.DesignSpaceDocument.fromstring(res), "tostring")

    def post_write(s, a, kw, res, exc):
        if exc is not None or s is None:
            return
        path = a[1].__fspath__() if hasattr(a[1], "__fspath__") else a[1]
        with open(path, "rb") as f:
            data = f.read()

        def reread():
            d = DS.DesignSpaceDocument()
            d.read(path)
            return d
        judge_designspace(s["snap"], data, path, reread, "write")

    hooks.attach(DS.DesignSpaceDocument, "tostring", pre=pre_doc, post=post_tostring, name="ds.tostring")
    hooks.attach(DS.DesignSpaceDocument, "write", pre=pre_doc, post=post_write, name="ds.write")
    hooks.attach(DS.DesignSpaceDocument, "read", name="ds.read")
    hooks.attach(DS.DesignSpaceDocument, "fromstring", name="ds.fromstring")
    for n in ("_addRule", "_addAxis", "_addAxisMapping", "_addAxisLabel", "_addLabelNames", "_addLocationLabel",
              "_addLocationElement", "_addInstance", "_addSource", "_addVariableFont", "_addLib", "_writeGlyphElement",
              "_makeLocationElement"):
        hooks.attach(DS.BaseDocWriter, n, name="ds.w." + n)
    for n in ("readRules", "readAxes", "readAxisLabel", "readLabels", "readVariableFonts", "readAxisSubset", "readSources",
              "readLocationElement", "readInstances", "_readSingleInstanceElement", "readLibElement", "readInfoElement",
              "readGlyphElement", "readLib"):
        hooks.attach(DS.BaseDocReader, n, name="ds.r." + n)

    # ---- axis maps ------------------------------------------------------------
    def _isnum(v):
        return isinstance(v, (int, float)) and not isinstance(v, bool) and v == v and abs(v) != float("inf")

    def _plmap(axis):
        try:
            pairs = [(a, b) for a, b in axis.map]
            if not all(_isnum(a) and _isnum(b) for a, b in pairs):
                return None
            seen = {}
            for a, b in pairs:
                if a in seen and seen[a] != b:
                    return None          # conflicting outputs: documented DesignSpaceDocumentError
                seen[a] = b
            return md.PLMap(pairs)
        except Exception:
            return None

    def _mapbad(func, shape, what, **w):
        st.bad({"kind": "axis-map", "func": func, "shape": shape, "what": what}, "%s on %s map: %s" % (func, shape, what), **w)

    def _shape(m):
        return ("increasing" if m.strictly_increasing() else "decreasing" if m.strictly_decreasing() else
                "flat-segments" if m.weakly_increasing() else "non-monotone")

    def post_map_forward(s, a, kw, res, exc):
        axis, v = a[0], a[1]
        if exc is not None or not _isnum(v):
            return
        m = _plmap(axis)
        if m is None:
            return
        if not m.knots:
            st.judged()
            if res != v:
                _mapbad("map_forward", "empty", "identity expected without a map", v=v, got=res)
            return
        shape = _shape(m)
        want = m.forward(v)
        st.judged()
        isknot = any(Fraction(v) == k for k, _ in m.knots)
        if not _isnum(res) or abs(Fraction(res) - want) > Fraction(m.tol(v)) or (isknot and Fraction(res) != want):
            _mapbad("map_forward", shape, "differs from the exact piecewise-linear value" + (" at a knot" if isknot else ""),
                    map=axis.map, v=v, got=res, want=float(want))
            return
        inside = m.knots[0][0] <= Fraction(v) <= m.knots[-1][0]
        if shape == "increasing" or (shape == "decreasing" and inside):
            back = axis.map_backward(res)
            st.judged()
            exact = m.integral() and isknot
            tol = Fraction(m.tol(v)) * m.max_slope()
            if (exact and back != v) or (not exact and abs(Fraction(back) - Fraction(v)) > tol):
                _mapbad("map_backward(map_forward)", shape, "does not return the user value" + (" exactly at an integral knot" if exact else ""),
                        map=axis.map, u=v, forward=res, back=back)
            else:
                st.key("map/%s/%s/%s" % (shape, "knot" if isknot else "between" if inside else "outside", "int" if m.integral() else "frac"))

    def post_map_backward(s, a, kw, res, exc):
        axis, v = a[0], a[1]
        if isinstance(v, tuple):
            v = v[0]
        if exc is not None or not _isnum(v):
            return
        m = _plmap(axis)
        if m is None:
            return
        if not m.knots:
            st.judged()
            if res != v:
                _mapbad("map_backward", "empty", "identity expected without a map", v=v, got=res)
            return
        shape = _shape(m)
        if shape == "non-monotone":
            st.note("map/precondition:non-monotone")
            return
        outs = [b for _, b in m.knots]
        if shape == "decreasing" and not (min(outs) <= Fraction(v) <= max(outs)):
            st.note("map/precondition:decreasing-outside-range")
            return
        pre = m.backward_set(v)
        st.judged()
        tol = Fraction(m.tol(v)) * m.max_slope()
        ok = _isnum(res) and any(lo - tol <= Fraction(res) <= hi + tol for lo, hi in pre)
        isknot = any(Fraction(v) == b for _, b in m.knots)
        if ok and shape == "increasing" and m.integral() and isknot:
            ok = Fraction(res) == pre[0][0] or any(Fraction(res) == lo for lo, hi in pre)
        if not ok:
            _mapbad("map_backward", shape, "is not a pre-image of the design value" + (" (exact at an integral knot)" if isknot and m.integral() else ""),
                    map=axis.map, v=v, got=res, want=[(float(lo), float(hi)) for lo, hi in pre])
        else:
            st.key("mapb/%s/%s/%s" % (shape, "knot" if isknot else "off", "int" if m.integral() else "frac"))

    hooks.attach(DS.AxisDescriptor, "map_forward", post=post_map_forward, name="axis.map_forward")
    hooks.attach(DS.AxisDescriptor, "map_backward", post=post_map_backward, name="axis.map_backward")

    def post_dmap_forward(s, a, kw, res, exc):
        axis, v = a[0], a[1]
        if exc is not None or not _isnum(v):
            return
        mp = {}
        for k, o in axis.map:
            if k in mp and mp[k] != o:
                return
            mp[k] = o
        st.judged()
        want = mp.get(v, v)
        if res != want:
            _mapbad("discrete.map_forward", "lookup", "not the mapped value", map=axis.map, v=v, got=res)
        elif v in mp and len(set(mp.values())) == len(mp):
            back = axis.map_backward(res)
            st.judged()
            if back != v:
                _mapbad("discrete.map_backward(map_forward)", "lookup", "does not return the user value", map=axis.map, v=v, back=back)
            else:
                st.key("map/discrete")

    hooks.attach(DS.DiscreteAxisDescriptor, "map_forward", post=post_dmap_forward, name="daxis.map_forward")
    hooks.attach(DS.DiscreteAxisDescriptor, "map_backward", name="daxis.map_backward")
    hooks.attach(DS.DesignSpaceDocument, "map_forward", name="ds.map_forward")
    hooks.attach(DS.DesignSpaceDocument, "map_backward", name="ds.map_backward")

    # ---- GLIF -------------------------------------------------------------------
    class Bag:
        pass

    def _fmt(v):
        if v is None:
            return 2
        if isinstance(v, int):
            return v
        if isinstance(v, tuple):
            return v[0]
        return getattr(v, "major", 2)

    def pre_glif(a, kw):
        name, obj, draw = a[0], a[1], a[2]
        out = None
        if draw is not None:
            pen = ex.RecPen()
            try:
                draw(pen)
                out = pen.out
            except Exception:
                return None
        return {"snap": ex.snap_glyph(obj, out)}

    def post_glif(s, a, kw, res, exc):
        if exc is not None or s is None:
            return
        name, fmtv, validate = a[0], _fmt(a[4]), a[5]
        if fmtv not in (1, 2):
            return
        g = s["snap"]
        tag = "glif%d" % fmtv
        st.judged()
        obj2, pen2 = Bag(), ex.RecPen()
        try:
            glifLib.readGlyphFromString(res, obj2, pen2, validate=validate)
        except Exception as e:
            st.bad(_exc_mech(tag, e), "GLIF %d: the reader raised %s on the writer's own output for glyph %r: %s"
                   % (fmtv, type(e).__name__, name, str(e)[:200]), glif=res[:1500])
            return
        if getattr(obj2, "name", None) != name:
            st.bad({"kind": "roundtrip", "fmt": tag, "what": "read(write(g)) != g", "field": "name", "why": "string"},
                   "GLIF %d: glyph name %r read back as %r" % (fmtv, name, getattr(obj2, "name", None)))
        want = ex.expected_glyph(g, fmtv)
        got = ex.read_norm(ex.snap_glyph(obj2, pen2.out), fmtv)
        d = md.deep_diff(want, got, md.NUM_EXACT)
        if d:
            st.bad({"kind": "roundtrip", "fmt": tag, "what": "read(write(g)) != g", "field": ex.glyph_field(d[0]), "why": d[1]},
                   "GLIF %d glyph %r: %s differs (%s): wrote %s, read back %s" % (fmtv, name, d[0], d[1], st.short(d[2]), st.short(d[3])),
                   path=d[0], want=d[2], got=d[3], glif=res[:1500])
            return
        f = []
        for kind, c in (g["outline"] or []):
            if kind == "component":
                f.append("comp" if ex._norm_transform(c["transformation"]) == (1, 0, 0, 1, 0, 0) else "compT")
            else:
                for p in c["points"]:
                    f.append({"move": "mv", "line": "ln", "curve": "cv", "qcurve": "qc", None: "off", "offcurve": "off"}[p["type"]])
                    if p["smooth"]:
                        f.append("sm")
                    if p["identifier"] is not None or c["identifier"] is not None:
                        f.append("id")
        for k, t in (("width", "adv"), ("unicodes", "uni"), ("note", "note"), ("image", "img"), ("guidelines", "gd"),
                     ("anchors", "anc"), ("lib", "lib")):
            if g[k]:
                f.append(t)
        st.key("%s/%s" % (tag, "+".join(sorted(set(f)))))

    hooks.attach(glifLib, "_writeGlyphToBytes", pre=pre_glif, post=post_glif, name="glif._writeGlyphToBytes")
    hooks.attach(glifLib, "writeGlyphToString", name="glif.writeGlyphToString")
    hooks.attach(glifLib, "readGlyphFromString", name="glif.readGlyphFromString")
    hooks.attach(glifLib.GlyphSet, "writeGlyph", name="GlyphSet.writeGlyph")
    hooks.attach(glifLib.GlyphSet, "readGlyph", name="GlyphSet.readGlyph")
    hooks.attach(glifLib.GlyphSet, "writeContents", name="GlyphSet.writeContents")
    hooks.attach(glifLib.GlyphSet, "writeLayerInfo", name="GlyphSet.writeLayerInfo")
    hooks.attach(glifLib.GlyphSet, "readLayerInfo", name="GlyphSet.readLayerInfo")

    # ---- file names ---------------------------------------------------------------
    def check_name(module, func, res, existing, prefix, suffix, userName):
        try:
            ex_list = list(existing)
        except TypeError:
            return
        if any((not isinstance(e, str)) or e != e.lower() for e in ex_list):
            st.note("names/precondition:existing-not-lowercase")
            return
        rec = st.S["names"].setdefault(id(existing), {"ref": existing, "issued": {}, "folded": set(), "seen": 0})
        if rec["seen"] != len(ex_list):
            rec["folded"] = {md.fold(e) for e in ex_list}
            rec["seen"] = len(ex_list)
        st.judged()
        problems = []
        p = md.name_problem(res)
        if p:
            problems.append(p)
        f = md.fold(res) if isinstance(res, str) else None
        if f is not None and f in rec["folded"]:
            problems.append("clash-with-existing" if res.lower() in ex_list or res.lower() in rec["ref"] else "clash-casefold-only")
        if isinstance(res, str) and (not res.startswith(prefix) or not res.endswith(suffix)):
            problems.append("prefix-or-suffix-lost")
        for p in problems:
            mech = {"kind": "filename", "module": module, "func": func, "problem": p}
            if p == "reserved":
                # did the user name already hold a reserved dot-part as typed (the "_" prefix then shifts the clip)?
                mech["typed_reserved"] = isinstance(userName, str) and any(q.lower() in md.RESERVED for q in userName.split("."))
            if p == "clash-casefold-only":
                del mech["func"]       # one mechanism whichever entry point issued the name
            st.bad(mech,
                   "%s.%s(%s) -> %s: %s" % (module, func, st.short(userName, 80), st.short(res, 80), p),
                   userName=userName, result=res, length=len(res) if isinstance(res, str) else None,
                   prefix=prefix, suffix=suffix, clashes_with=[e for e in ex_list if md.fold(e) == f][:3])
        if isinstance(res, str):
            rec["issued"][f] = res
            if res[-1:] in (".", " "):
                st.note("names/observed:trailing-dot-or-space")
            if len(res.encode("utf-8", "surrogatepass")) > 255:
                st.note("names/observed:more-than-255-utf8-bytes")
        return problems

    def mk_name_post(module, func):
        def post(s, a, kw, res, exc):
            if func == "handleClash2":
                userName, (existing, prefix, suffix) = None, a[:3]
            else:
                userName, existing, prefix, suffix = a[:4]
            if exc is not None:
                if type(exc).__name__ == "NameTranslationError" or not isinstance(userName, (str, type(None))) or userName == "":
                    st.note("names/precondition:%s" % type(exc).__name__)
                    return
                st.judged()
                fr = lib_frame(exc)
                st.bad({"kind": "filename", "module": module, "func": func, "problem": "raised", "type": type(exc).__name__},
                       "%s.%s(%s) raised %s" % (module, func, st.short(userName, 80), type(exc).__name__), where=fr)
                return
            check_name(module, func, res, existing, prefix, suffix, userName)
        return post

    for mod, mname in ((ufn, "ufoLib.filenames"), (mfn, "misc.filenames")):
        for fn in ("userNameToFileName", "handleClash1", "handleClash2"):
            hooks.attach(mod, fn, post=mk_name_post(mname, fn), name="%s.%s" % (mname, fn))
    hooks.attach(glifLib, "glyphNameToFileName", name="glif.glyphNameToFileName")

    # ---- plist ----------------------------------------------------------------------
    def _plist_domain(v, depth=0):
        """Values whose round trip is defined: str keys, finite-or-any floats, no Data wrappers."""
        import datetime
        if depth > 200:
            return False
        if isinstance(v, (bool, int, str, bytes, bytearray, datetime.datetime)):
            return True
        if isinstance(v, float):
            return v == v
        if isinstance(v, dict):
            return all(isinstance(k, str) and _plist_domain(x, depth + 1) for k, x in v.items())
        if isinstance(v, (list, tuple)):
            return all(_plist_domain(x, depth + 1) for x in v)
        return False

    def _plbad(func, d, what, value, out=None):
        st.bad({"kind": "roundtrip", "fmt": "plist", "func": func, "what": what, "why": d[1] if d else None},
               "plist %s: %s at %s (%s): wrote %s, got %s" % (func, what, d[0] if d else "-", d[1] if d else "-",
                                                             st.short(d[2]) if d else "-", st.short(d[3]) if d else "-"),
               value=value, output=out)

    def post_dumps(s, a, kw, res, exc):
        value, sort_keys, skipkeys, ubt, pretty = a[:5]
        if exc is not None or ubt is False or skipkeys or not _plist_domain(value):
            return
        st.judged()
        try:
            back = PL.loads(res)
        except Exception as e:
            st.bad(_exc_mech("plist", e), "plist: loads raised %s on the output of dumps: %s" % (type(e).__name__, str(e)[:200]),
                   value=value, output=res[:800])
            return
        d = md.deep_diff(value, back, md.NUM_EXACT)
        if d:
            _plbad("dumps", d, "loads(dumps(x)) != x", value, res[:800])
            return
        try:
            std = stdpl.loads(res)
        except Exception as e:
            st.bad({"kind": "roundtrip", "fmt": "plist", "func": "dumps", "what": "stdlib plistlib rejects the output", "type": type(e).__name__},
                   "plist: the standard library cannot parse the output of dumps: %r" % e, value=value, output=res[:800])
            return
        d = md.deep_diff(value, std, md.NUM_EXACT)
        if d:
            _plbad("dumps", d, "stdlib plistlib reads another value", value, res[:800])
            return
        for c in gen_plist_classes(value):
            st.key("plist/%s/%s" % ("pp" if pretty else "flat", c))

    def post_totree(s, a, kw, res, exc):
        value, sort_keys, skipkeys, ubt, pretty, indent = a[:6]
        if exc is not None or ubt is False or skipkeys or not _plist_domain(value):
            return
        st.judged()
        try:
            back = PL.fromtree(res)
        except Exception as e:
            st.bad(_exc_mech("plist", e, "fromtree rejects totree output"), "plist: fromtree raised %s on the output of totree" % type(e).__name__, value=value)
            return
        d = md.deep_diff(value, back, md.NUM_EXACT)
        if d:
            _plbad("totree", d, "fromtree(totree(x)) != x", value)
        else:
            st.key("plisttree/i%d/%s" % (min(indent, 4), "pp" if pretty else "flat"))

    from vmon.gen.c19_gen import plist_classes as gen_plist_classes
    hooks.attach(PL, "dumps", post=post_dumps, name="plist.dumps")
    hooks.attach(PL, "totree", post=post_totree, name="plist.totree")
    hooks.attach(PL, "loads", name="plist.loads")
    hooks.attach(PL, "fromtree", name="plist.fromtree")
    hooks.attach(PL, "dump", name="plist.dump")
    hooks.attach(PL, "load", name="plist.load")

    # ---- UFO reader / writer / converters ---------------------------------------------
    def pre_conv(a, kw):
        return {"kerning": copy.deepcopy(a[0]), "groups": copy.deepcopy(a[1])}

    def post_conv(s, a, kw, res, exc):
        if exc is not None or s is None:
            return
        st.judged()
        new_kerning, new_groups, maps = res
        probs = md.kerning_upconversion_problems(s["kerning"], s["groups"], a[2], new_kerning, new_groups, maps)
        if probs:
            first = ([p for p in probs if p.startswith("rename-collision")] + probs)[0].split(":")[0]
            st.bad({"kind": "conversion", "func": "convertUFO1OrUFO2KerningToUFO3Kerning", "problem": first},
                   "UFO1/2 -> 3 kerning conversion: %s" % ", ".join(probs), kerning=s["kerning"], groups=s["groups"], maps=maps)
        if probs:
            st.S["flags"].add("conv-problem")
        else:
            k = []
            if maps["side1"] or maps["side2"]:
                k.append("renamed")
            if any(g.startswith("@MMK_") for g in s["groups"]):
                k.append("mmk")
            if any(not g.startswith(("@MMK_", "public.")) for g in list(maps["side1"]) + list(maps["side2"])):
                k.append("plain")
            st.key("kernconv/" + "+".join(k))

    hooks.attach(converters, "convertUFO1OrUFO2KerningToUFO3Kerning", pre=pre_conv, post=post_conv, name="converters.kerning")
    for n in ("writeInfo", "writeKerning", "writeGroups", "writeLib", "writeFeatures", "writeLayerContents", "getGlyphSet",
              "writeImage", "writeData", "setKerningGroupConversionRenameMaps", "renameGlyphSet", "deleteGlyphSet"):
        hooks.attach(UL.UFOWriter, n, name="UFOWriter." + n)
    for n in ("readInfo", "readKerning", "readGroups", "readLib", "readFeatures", "getLayerNames", "getDefaultLayerName",
              "getGlyphSet", "readImage", "readData", "getKerningGroupConversionRenameMaps", "readMetaInfo"):
        hooks.attach(UL.UFOReader, n, name="UFOReader." + n)


# ---------------------------------------------------------------------------------
# cases
# ---------------------------------------------------------------------------------
DS_CLASSES = [
    ("5", "axes+maps", []), ("5", "discrete", ["discrete"]), ("5", "labels", ["labels"]),
    ("5", "discrete+rules+labels", ["discrete", "rules", "labels"]), ("5", "rules", ["rules"]),
    ("5", "vfs+discrete", ["vfs", "discrete"]), ("5", "vfs+lib", ["vfs", "lib"]),
    ("5", "loclabels+userloc", ["loclabels", "userloc", "labels"]), ("5", "partial+aniso", ["partial", "aniso", "userloc"]),
    ("5", "localised+flags", ["localised", "flags"]), ("5", "mappings", ["mappings"]),
    ("5", "everything", ["discrete", "rules", "labels", "vfs", "lib", "loclabels", "userloc", "partial", "aniso", "localised", "flags", "mappings"]),
    ("4", "plain", []), ("4", "rules", ["rules"]), ("4", "glyphs+aniso", ["glyphs", "aniso"]),
    ("4", "flags+localised", ["flags", "localised"]), ("4", "lib", ["lib"]),
    ("4", "everything4", ["rules", "glyphs", "aniso", "flags", "localised", "lib"]),
    ("4>5", "labels", ["labels", "up"]), ("4>5", "vfs+userloc", ["vfs", "userloc", "loclabels", "up"]),
]
GLIF_CLASSES = [
    (2, "outline", ["outline"]), (2, "outline+comp", ["outline", "components"]), (2, "comp+lib", ["components", "lib"]),
    (2, "attrs", ["advance", "unicodes", "note", "image", "guidelines", "anchors"]), (2, "lib", ["lib", "advance"]),
    (2, "everything", ["outline", "components", "advance", "unicodes", "note", "image", "guidelines", "anchors", "lib"]),
    (2, "empty", []), (2, "empty-outline", ["empty-outline", "anchors"]),
    (1, "outline", ["outline"]), (1, "outline+comp+anchors", ["outline", "components", "anchors"]),
    (1, "attrs+lib", ["advance", "unicodes", "note", "lib", "empty-outline"]),
    (1, "everything1", ["outline", "components", "advance", "unicodes", "note", "anchors", "lib"]),
]
PROBES = ["ds-precision", "ds-tostring-text", "ds-vf-partial-range", "ds-vf-no-subsets", "ds-empty-labelname", "ds-v4-info-kerning-false",
          "glif1-identifiers", "glif1-anchors-no-outline", "kern-collision", "names-reserved-long", "names-fold",
          "names-misc-reserved", "names-misc-illegal", "names-reserved-after-shift", "map-knots"]


def cases(tier, seed):
    T = tier == "thorough"
    cs = []

    def add(kind, ident, **kw):
        kw.update(kind=kind, id="%s:%s" % (kind, ident), seed=seed)
        cs.append(kw)

    reps = 6 if T else 1
    for fam, name, feats in DS_CLASSES:
        for r in range(reps * 2):
            add("ds", "%s/%s/%d" % (fam, name, r), fam=fam, features=feats, n=10 if T else 5)
    for fmt, name, feats in GLIF_CLASSES:
        for r in range(reps * 2):
            add("glif", "%d/%s/%d" % (fmt, name, r), fmt=fmt, features=feats, n=30 if T else 12)
    for v in (3, 2, 1):
        for r in range(reps * 3 if v == 3 else reps * 2):
            add("ufo", "v%d/%d" % (v, r), version=v)
    for r in range(reps * 3):
        add("ufokern2", "%d" % r, n=6 if T else 3)
    for r in range(reps * 2):
        add("layers", "%d" % r, n=12)
    for r in range(reps * 4):
        add("sessions", "%d" % r, n=12 if T else 8)
    for base in ("4.0", "4.1", "5.0", "5.1"):
        for r in range(reps):
            add("dshist", "%s/%d" % (base, r), base=base, n=18)
    for r in range(reps * 3):
        add("ufodown", "%d" % r, n=10)
    from vmon.gen.c19_gen import NAME_KINDS
    for k in NAME_KINDS:
        for r in range(reps * 2):
            add("names", "%s/%d" % (k, r), nkind=k, nseq=8 if T else 4, length=50)
    for r in range(reps * 6):
        add("plist", "%d" % r, n=60 if T else 25)
    for r in range(reps * 3):
        add("maps", "%d" % r, n=60 if T else 25)
    for r in range(reps):
        add("infoinvalid", "%d" % r, n=40)
    for p in PROBES:
        add("probe", p, probe=p)
    from vmon import corpus
    other = corpus.inventory().get("other", {})
    dsf = sorted(other.get("designspace", []))
    for i in range(0, len(dsf), 6):
        add("corpus-ds", "%d" % (i // 6), files=dsf[i:i + 6])
    glf = sorted(other.get("glif", []))
    for i in range(0, len(glf), 40):
        add("corpus-glif", "%d" % (i // 40), files=glf[i:i + 40])
    plf = sorted(other.get("plist", []))
    for i in range(0, len(plf), 40):
        add("corpus-plist", "%d" % (i // 40), files=plf[i:i + 40])
    for u in sorted(other.get("ufo", [])):
        add("corpus-ufo", u, path=u)
    return cs


def run_case(case, ctx):
    from vmon.gen import c19_drivers as drv
    st.reset()
    rnd = random.Random("%s/%s" % (case["id"], case["seed"]))
    scratch = os.path.join(os.environ["VMON_SCRATCH"], "c19-%d" % abs(hash(case["id"])))
    os.makedirs(scratch, exist_ok=True)
    try:
        getattr(drv, "drv_" + case["kind"].replace("-", "_"))(case, rnd, ctx, scratch)
    finally:
        ctx.judged(st.S["n"])
        for k in st.S["keys"]:
            ctx.nontrivial(k)
        for k, n in st.S["notes"].items():
            ctx.note(k, n)
        if ctx.sample is None:
            ctx.sample = {"case": {k: v for k, v in case.items() if k not in ("seed", "files")},
                          "monitor_evaluations": st.S["n"], "classes_seen": sorted(st.S["keys"])[:10]}
        import shutil
        shutil.rmtree(scratch, ignore_errors=True)
