"""C12 - rewriting a CFF charstring never changes what it draws.

Post-condition monitors sit on the library's rewrite functions (specializer, T2CharString
compile/decompile, cffLib.transforms, CFF<->CFF2 converters, width optimiser).  Each one
executes "before" (snapshot taken on entry) and "after" with vmon/oracle/t2ref.py, a Type 2
machine written from TN5177 that shares no code with fontTools, and compares path, advance
width, operand-stack depth and operator arities.  The drivers additionally wrap before/after
into OpenType fonts and let HarfBuzz and FreeType draw both (FreeType enforces the 48-operand
limit and, on the bare CFF table, reports the charstring width).
"""
import io
import os
import random
import re as _re

from vmon import hooks, probes, corpus
from vmon.case import LibRaised
from vmon.oracle import t2ref, geom

PROPERTY = "C12"
LEVEL = "exploration"
RULE = ("a case is a batch of generated Type 2/CFF2 programs (operator grammar: every path operator in every "
        "argument-count form, hints/masks, width prefix, 16.16 operands, blends, subroutine nestings) or a corpus "
        "CFF/CFF2 font (whole-font rewrite, or a slice of its charstrings); every rewrite call is judged by the "
        "post-condition monitor on the real function.  Distinct non-trivial = (rewrite, operator/argument-count "
        "form met in a program whose token list the rewrite actually changed) or (corpus font, rewrite)")
ASSUMPTIONS = [
    "oracle: vmon/oracle/t2ref.py (TN5177 machine, cross-checked against HarfBuzz and FreeType on every generated font; disagreement between oracles makes the case inconclusive)",
    "filled-outline equality: runs of purely horizontal (or purely vertical) lines are first merged on both sides (a zero-width spur encloses no area), then geom.outlines_match (structural, else signed area/bounds/Hausdorff) with tol 1e-6; integer and 16.16 operands add exactly in binary64",
    "topology equality (preserveTopology, generalize, desubroutinize, hint removal, subr renumbering, CFF->CFF2): identical pen records, coordinates within 1e-7 (movetos that draw nothing create no point)",
    "compile: every real operand may move by at most 2^-17 (16.16 rounding), hence path tolerance n_fractional_operands*2^-17; HarfBuzz returns float32 (tolerance 2 ulp at the outline's magnitude); FreeType truncates fractions, so it judges only integer outlines (it still rejects over-deep stacks everywhere)",
    "documented contracts honoured as preconditions: specializeCommands(generalizeFirst=False) judged only on general-form input; malformed input (errors in 'before') only judged for *new* errors; CFF2->CFF only for non-variable fonts; T2 integer operands int16; subroutine numbers directly precede callsubr/callgsubr",
    "stack limit judged against the format (48 CFF, 513 CFF2; a client passing maxstack>48 declares CFF2); maxstack<48 is used as workload variation only",
]
REQUIRED_MONITORS = [
    "specializeCommands", "generalizeCommands", "programToCommands", "commandsToProgram", "specializeProgram",
    "T2CharString.compile", "T2CharString.decompile", "desubroutinize", "remove_hints",
    "remove_unused_subroutines", "convertCFFToCFF2", "convertCFF2ToCFF", "optimizeWidths",
]
REQUIRED_SITES = ["spec.merge-rmoveto", "spec.00curveto-to-line", "spec.merge-hvline", "spec.merge-generic",
                  "desub.splice", "dehint.drop-mask"]
CASE_TIMEOUT = 300
MANIFEST = {
    "text": "Exploration. Post-condition monitors on specializeCommands/generalizeCommands/programToCommands/commandsToProgram/specializeProgram, T2CharString.compile/decompile, transforms.desubroutinize/remove_hints/remove_unused_subroutines, convertCFFToCFF2/convertCFF2ToCFF and width.optimizeWidths execute the charstring before and after the rewrite with an independent TN5177 stack machine (path, width, max operand-stack depth, operator arities, hintmask lengths) and compare; generated programs cover every path operator in every argument-count form, zero patterns for each peephole rule, hints/masks, width prefix, 16.16 operands, counts at the 48/513 limit, blends with 1-3 regions at several locations, local/global subroutine nestings; all corpus CFF/CFF2 fonts are swept. Before/after are also wrapped into OTFs and drawn by HarfBuzz and FreeType. Tests cannot settle this: they compare expected program strings for a few inputs and never prove path equality.",
    "note": "Trusted base: vmon/oracle/t2ref.py, HarfBuzz 12.1, FreeType 2.13.2 (48-operand limit, bare-CFF widths), vmon/oracle/geom.py. fontTools' own outline extractor is used as a cross-check only. Preconditions: general-form input for generalizeFirst=False, non-variable CFF2 for CFF2->CFF, int16 integer operands.",
    "technique": "post-condition monitors with before/after execution on an independent reference interpreter; differential rendering through HarfBuzz and FreeType; grammar-based program generation; site probes on the specialiser's peephole rules",
    "design_ref": "DESIGN.md §4 C12",
}

_cur = {"keys": set(), "n": 0, "notes": {}, "glyphs": None, "draw_budget": 0}
TOPO_TOL = 1e-7
BENIGN = {"missing-endchar", "path-before-moveto"}
DYADIC = [0.5, 0.25, 0.75, 1.0, 0.125, 0.375, 0.625, 0.875]


def _note(k, n=1):
    _cur["notes"][k] = _cur["notes"].get(k, 0) + n


# ---------------------------------------------------------------- comparison
def _hv_merge(rec):
    """Fill-preserving normal form of a pen record: a cubic whose control points coincide with its
    end points is the straight line between them; zero-length lines vanish; runs of consecutive
    purely-horizontal (resp. purely-vertical) lines collapse into one line (the spur they may
    contain has zero width, hence encloses nothing).  Iterated to a fixpoint."""
    out = []
    cur = start = None
    for op, a in rec:
        if op == "curveTo" and len(a) == 3 and cur is not None and a[0] == cur and a[1] == a[2]:
            op, a = "lineTo", (a[2],)
        if op == "moveTo":
            start = a[0]
        elif op == "closePath" and cur is not None and start is not None and cur != start:
            out.append(("lineTo", (start,)))      # the implied closing line, made explicit
        out.append((op, a))
        if a:
            cur = a[-1]
    while True:
        res = []
        cur = None
        run = None
        changed = False
        for op, a in out:
            if op == "lineTo":
                p = a[0]
                if cur is not None:
                    dx, dy = p[0] - cur[0], p[1] - cur[1]
                    if dx == 0 and dy == 0:
                        changed = True
                        continue
                    kind = "h" if dy == 0 else "v" if dx == 0 else None
                    if kind and kind == run and res and res[-1][0] == "lineTo":
                        res[-1] = ("lineTo", (p,))
                        cur = p
                        changed = True
                        continue
                    run = kind
                res.append((op, a))
                cur = p
            else:
                res.append((op, a))
                run = None
                if a:
                    cur = a[-1]
        out = res
        if not changed:
            return out


def same_fill(a, b, tol):
    ok, stage, why = geom.outlines_match(_hv_merge(a), _hv_merge(b), tol)
    return ok, why


def same_topology(a, b, tol=TOPO_TOL):
    d = geom.max_point_diff(a, b)
    if d is None:
        return False, "pen records differ in structure (%d vs %d items)" % (len(a), len(b))
    if d > tol:
        return False, "points differ by %g" % d
    return True, ""


def _errclass(e):
    parts = e.split(":")
    if parts[0] in ("arity", "invalid-op-in-cff2", "invalid-op-in-cff", "invalid-op", "late-stem", "path-before-moveto"):
        return ":".join(parts[:2])
    return parts[0]


def _tok_json(toks, limit=400):
    limit = max(limit, int(os.environ.get("VMON_C12_WITNESS_TOKENS", "0")))
    out = []
    for t in list(toks)[:limit]:
        out.append(t.hex() if isinstance(t, (bytes, bytearray)) else t)
    if len(toks) > limit:
        out.append("...(%d tokens)" % len(toks))
    return out


def _has_blend(toks):
    for t in toks:
        if t == "blend" or t == "vsindex":
            return True
    return False


# ---------------------------------------------------------------- executing with t2ref
def run_detached(toks, cff2, limit, num_regions=None, blend_ks=None, scal=None):
    """Execute a program detached from a font (no subroutines).  Returns Result or str (fatal)."""
    kw = dict(cff2=cff2, default_width=-1, nominal_width=0, stack_limit=limit)
    if blend_ks is not None:
        ks = list(blend_ks)
        kw["blend_ks"] = ks
        if scal is not None:
            # scalars must follow the k of the blend being executed: peek at the queue
            if scal == "ones":
                kw["scalars"] = lambda vs: [1.0] * m.blend_ks_peek
            else:
                kw["scalars"] = lambda vs: [DYADIC[j % len(DYADIC)] for j in range(m.blend_ks_peek)]
    elif num_regions is not None:
        kw["num_regions"] = num_regions
        kw["vsindex"] = None      # "the Private DICT's default": the callable resolves it (as the library does)
        if scal == "ones":
            kw["scalars"] = lambda vs: [1.0] * num_regions(vs)
        elif scal is not None:
            kw["scalars"] = lambda vs: [DYADIC[j % len(DYADIC)] for j in range(num_regions(vs))]
    m = _PeekMachine(**kw)
    try:
        return m.run(toks)
    except t2ref.T2Error as e:
        return "T2Error: %s" % e
    except (IndexError, TypeError, ValueError, KeyError) as e:   # malformed beyond the spec reader
        return "T2Error: %s: %s" % (type(e).__name__, e)


class _PeekMachine(t2ref.Machine):
    blend_ks_peek = 0

    def _k(self):
        k = t2ref.Machine._k(self)
        self.blend_ks_peek = k
        return k


def exec_all(toks, cff2, limit, num_regions=None, blend_ks=None, auto=False):
    """auto=True (only for the 'before' side): see below; the limit finally used is left in
    _cur['last_limit'] and must be passed on to the 'after' side."""
    out = _exec_all(toks, cff2, limit, num_regions, blend_ks)
    _cur["last_limit"] = limit
    if auto and limit < 513 and any((not isinstance(r, str)) and "stack-overflow" in r.errors for r in out):
        # a CFF2 program without blends cannot be told from a CFF one: judge it by the CFF2 limit
        out = _exec_all(toks, cff2, 513, num_regions, blend_ks)
        _cur["last_limit"] = 513
        _note("dialect.cff2-by-stack-depth")
    return out


def _exec_all(toks, cff2, limit, num_regions=None, blend_ks=None):
    blend = _has_blend(toks)
    out = []
    for scal in ([None, "dyadic"] if blend else [None]):
        out.append(run_detached(toks, cff2, limit, num_regions, blend_ks, scal))
    return out


class _Seq:
    """Read-only view over a fontTools subroutine INDEX (or list / None)."""

    def __init__(self, ix):
        self.ix = ix

    def __len__(self):
        return len(self.ix) if self.ix is not None else 0

    def __getitem__(self, j):
        return self.ix[j]


def _store_info(priv):
    """(k per vsindex, regions per vsindex as lists of [(start,peak,end) per axis]) read from the
    in-memory VarStore by attribute access only."""
    vs = getattr(priv, "vstore", None)
    st = getattr(vs, "otVarStore", None) if vs is not None else None
    if st is None:
        return None
    regs = []
    for r in st.VarRegionList.Region:
        regs.append([(a.StartCoord, a.PeakCoord, a.EndCoord) for a in r.VarRegionAxis])
    per = []
    for vd in st.VarData:
        per.append([regs[i] for i in vd.VarRegionIndex])
    return per


def _tent(c, s, p, e):
    from vmon.gen.c12_font import tent
    return tent(c, s, p, e)


def _locs(naxes):
    if not naxes:
        return [None]
    return [None, [0.5] * naxes, [(-0.75, 0.25, 1.0, -0.5)[i % 4] for i in range(naxes)]]


def cs_exec(cs, cff2=None, trace=False, locs=None, code=None):
    """Execute a charstring object in its font context.  -> list of Result|str, one per location."""
    priv = cs.private
    if cff2 is None:
        cff2 = bool(getattr(priv, "in_cff2", False)) if priv is not None else False
    lsubrs = getattr(priv, "Subrs", None) if priv is not None else None
    kw = dict(cff2=cff2, lsubrs=_Seq(lsubrs), gsubrs=_Seq(cs.globalSubrs), trace=trace)
    per = None
    if cff2:
        per = _store_info(priv) if priv is not None else None
        if per is not None:
            kw["num_regions"] = lambda vs: len(per[vs])
        kw["vsindex"] = getattr(priv, "vsindex", 0) or 0
    else:
        dw = getattr(priv, "defaultWidthX", 0) if priv is not None else 0
        nw = getattr(priv, "nominalWidthX", 0) if priv is not None else 0
        kw["default_width"] = dw if dw is not None else 0
        kw["nominal_width"] = nw if nw is not None else 0
    if code is None:
        code = cs.bytecode if cs.bytecode is not None else cs.program
    if cff2 and isinstance(code, list) and code and code[-1] in ("endchar", "return"):
        # in-memory convention of the library: T2CharString.compile(isCFF2=True) drops a final
        # endchar/return (documented there), so it is not part of the CFF2 charstring
        code = code[:-1]
    naxes = len(per[0][0]) if per and per[0] else (0 if not per else max((len(r[0]) for r in per if r), default=0))
    out = []
    for loc in (locs if locs is not None else _locs(naxes)):
        k2 = dict(kw)
        if loc is not None and per is not None:
            def scal(vs, loc=loc):
                res = []
                for reg in per[vs]:
                    s = 1.0
                    for c, (a, b, e) in zip(loc, reg):
                        s *= _tent(c, a, b, e)
                    res.append(s)
                return res
            k2["scalars"] = scal
        try:
            out.append(t2ref.Machine(**k2).run(code))
        except t2ref.T2Error as e:
            out.append("T2Error: %s" % e)
        except (IndexError, TypeError, ValueError, KeyError, AttributeError) as e:
            out.append("T2Error: %s: %s" % (type(e).__name__, e))
    return out


# ---------------------------------------------------------------- judging
def _rep(op, field, what, witness, **extra):
    mech = {"kind": "rewrite", "op": op, "field": field}
    mech.update(extra)
    hooks.report(mech, "%s: %s" % (op, what), witness)


def judge(op, before, after, mode, limit, tol=1e-6, wit=None, extra=None, width=True, stack=True, limit_before=None):
    """before/after: lists of Result|str (one per location).  Returns number of verdicts."""
    extra = extra or {}
    n = 0
    for i, (b, a) in enumerate(zip(before, after)):
        if isinstance(b, str):
            _note("precondition.before-not-executable:" + _re.sub(r"\d+", "N", b)[:48])
            continue
        n += 1
        w = dict(wit or {})
        w["location_index"] = i
        if isinstance(a, str):
            _rep(op, "unexecutable", "rewritten program cannot be executed: %s" % a, w, **extra)
            continue
        if mode == "topology":
            ok, why = same_topology(b.path, a.path, max(tol, TOPO_TOL) if tol > 1e-6 else TOPO_TOL)
            fld = "topology"
        else:
            ok, why = same_fill(b.path, a.path, tol)
            fld = "path"
        if not ok:
            w.update(before_path=b.path[:40], after_path=a.path[:40])
            _rep(op, fld, "outline changed (%s)" % why, w, **extra)
        if width and (b.width is None) != (a.width is None):
            pass  # dialect change: judged by the caller
        elif width and b.width is not None and abs(b.width - a.width) > tol:
            w.update(before_width=b.width, after_width=a.width)
            _rep(op, "width", "advance width %r -> %r" % (b.width, a.width), w, **extra)
        if b.seac != a.seac:
            _rep(op, "seac", "endchar accent operands %r -> %r" % (b.seac, a.seac), w, **extra)
        bc = {_errclass(e) for e in b.errors}
        new = sorted({_errclass(e) for e in a.errors} - bc)
        if bc - BENIGN:
            # input outside the quantifier ("well-formed programs"): outline/width are still compared,
            # further format errors are consequences of the input's own
            if new:
                _note("precondition.malformed-input-format-not-judged")
            new = []
        for e in new:
            if e == "stack-overflow":
                continue
            fld = "arity" if e.startswith("arity") else "format"
            w2 = dict(w, errors=a.errors[:8])
            _rep(op, fld, "emitted program violates the format: %s" % [x for x in a.errors if _errclass(x) == e][:3],
                 w2, error=e, **extra)
        if stack and a.max_stack > limit and b.max_stack <= (limit_before or limit):
            _rep(op, "stack", "operand stack depth %d at %s exceeds the limit %d (was %d)" % (a.max_stack, a.max_stack_op, limit, b.max_stack),
                 dict(w, max_stack=a.max_stack), limit=limit, at=a.max_stack_op, in_subr=a.max_stack_in_subr, **extra)
    _cur["n"] += n
    return n


def _forms_keys(op, b, a):
    for r in (b, a):
        if isinstance(r, str) or r is None:
            continue
        for f in r.forms:
            _cur["keys"].add("%s|%s" % (op, "/".join(f)))


# ---------------------------------------------------------------- monitors
GENERAL_OPS = {"rmoveto": 2, "rlineto": 2, "rrcurveto": 6}
SPECIAL_PATH = {"hmoveto", "vmoveto", "hlineto", "vlineto", "hhcurveto", "vvcurveto", "hvcurveto", "vhcurveto",
                "rcurveline", "rlinecurve"}


def _is_general(commands):
    """General form: one segment per rmoveto/rlineto/rrcurveto, and every blended operand is its
    own list [default, delta.., 1] (what generalizeCommands produces)."""
    for op, args in commands:
        if op in SPECIAL_PATH:
            return False
        if op in GENERAL_OPS and len(args) != GENERAL_OPS[op]:
            return False
        for a in args:
            if isinstance(a, list) and (not a or a[-1] != 1 or any(isinstance(x, list) for x in a)):
                return False
    return True


CLEARING = {"hstem", "hstemhm", "vstem", "vstemhm", "cntrmask", "hintmask", "hmoveto", "vmoveto", "rmoveto", "endchar"}


def _eff(args):
    return sum((a[-1] if isinstance(a, list) else 1) for a in args)


def _width_split_ok(commands, first_clear):
    """The operands programToCommands leaves on the first stack-clearing operator must be a legal
    operand count for it (the width, if any, having been split off)."""
    if first_clear is None:
        return True
    prev = None
    for op, args in commands:
        if op in CLEARING:
            n = _eff(args)
            if op in ("hintmask", "cntrmask"):
                n = _eff(prev[1]) if prev is not None and prev[0] == "" else 0
                # a preceding ('', [w]) width command is not an implicit-stem list
                return n % 2 == 0 or (prev is not None and len(prev[1]) == 1 and first_clear[1] == 1)
            if op == "rmoveto":
                return n == 2
            if op in ("hmoveto", "vmoveto"):
                return n == 1
            if op == "endchar":
                return n in (0, 4)
            return n >= 2 and n % 2 == 0
        prev = (op, args)
    return True


def _dialect(toks, maxstack=48):
    cff2 = _has_blend(toks) or maxstack > 48
    return cff2, (513 if cff2 else 48)


def _snap_font(cff):
    """{glyph: [Result|str per location]} for the glyphs selected by the running case."""
    top = cff.topDictIndex[0]
    css = top.CharStrings
    sel = _cur.get("glyphs")
    cff2 = getattr(cff, "major", 1) == 2
    out = {}
    for name in css.keys():
        if sel is not None and name not in sel:
            continue
        out[name] = cs_exec(css[name], cff2=cff2)
    return out


def _judge_font(op, before, after, mode, limit_of, extra=None, width=True, limit_before=None):
    n = 0
    for name, b in before.items():
        a = after.get(name)
        if a is None:
            _rep(op, "glyph-missing", "glyph %r disappeared" % name, {"glyph": name}, **(extra or {}))
            continue
        lim = limit_of(a)
        ex = dict(extra or {})
        b0 = b[0] if b else None
        if b0 is not None and not isinstance(b0, str):
            ex["dialect"] = "cff2" if b0.width is None else "cff"
            ex["features"] = "+".join(sorted(b0.features))
        n += judge(op, b, a, mode, lim, wit={"glyph": name}, extra=ex, width=width, limit_before=limit_before)
        if b and not isinstance(b[0], str) and a and not isinstance(a[0], str):
            if b[0].path != a[0].path or b[0].ops != a[0].ops:
                _forms_keys(op, b[0], a[0])
    return n


def _limit_of(results):
    # dialect of the executed charstring: width None <=> CFF2
    for r in results:
        if not isinstance(r, str):
            return 513 if r.width is None else 48
    return 513


def setup():
    from fontTools.cffLib import specializer as S, transforms as TR, width as W
    from fontTools.cffLib import CFFToCFF2 as C12M, CFF2ToCFF as C21M
    from fontTools.misc import psCharStrings as PS
    import fontTools.cffLib
    import fontTools.pens.t2CharStringPen
    import fontTools.varLib.cff
    import fontTools.varLib.instancer
    import fontTools.ttLib.scaleUpem
    import fontTools.subset.cff

    # ---- specializeCommands
    def pre_spec(a, kw):
        commands = a[0]
        toks, ks = _flatten(commands)
        return {"toks": toks, "ks": ks, "general": _is_general(commands)}

    def post_spec(st, a, kw, res, exc):
        if st is None:
            return
        commands, ignoreErrors, generalizeFirst, preserveTopology, maxstack = a[:5]
        opts = {"generalizeFirst": bool(generalizeFirst), "preserveTopology": bool(preserveTopology)}
        cff2, limit = _dialect(st["toks"], maxstack)
        before = exec_all(st["toks"], cff2, limit, blend_ks=st["ks"], auto=True)
        limit = _cur["last_limit"]
        if any(isinstance(b, str) for b in before) or any(b.errors and set(map(_errclass, b.errors)) - {"missing-endchar"} for b in before):
            _note("specializeCommands.precondition.malformed-input")
            return
        if not generalizeFirst and not st["general"]:
            _note("specializeCommands.precondition.not-general-form")
            return
        wit = {"before": _tok_json(st["toks"]), "options": dict(opts, maxstack=maxstack, ignoreErrors=bool(ignoreErrors))}
        if exc is not None:
            _note("exception-seen-by-monitor")
            return
        toks2, ks2 = _flatten(res)
        wit["after"] = _tok_json(toks2)
        after = exec_all(toks2, cff2, limit, blend_ks=ks2)
        judge("specializeCommands", before, after, "topology" if preserveTopology else "fill", limit, wit=wit, extra=opts)
        if toks2 != st["toks"]:
            _forms_keys("spec", None, after[0])
            if before[0].path and not isinstance(after[0], str) and len(after[0].path) < len(before[0].path):
                _note("rule.points-removed")

    hooks.attach(S, "specializeCommands", pre=pre_spec, post=post_spec, name="specializeCommands")

    # ---- generalizeCommands
    def pre_gen(a, kw):
        toks, ks = _flatten(a[0])
        return {"toks": toks, "ks": ks}

    def post_gen(st, a, kw, res, exc):
        if st is None:
            return
        cff2, limit = _dialect(st["toks"])
        before = exec_all(st["toks"], cff2, limit, blend_ks=st["ks"], auto=True)
        limit = _cur["last_limit"]
        if any(isinstance(b, str) or (set(map(_errclass, b.errors)) - {"missing-endchar"}) for b in before):
            _note("generalizeCommands.precondition.malformed-input")
            return
        wit = {"before": _tok_json(st["toks"])}
        if exc is not None:
            _note("exception-seen-by-monitor")
            return
        if a[1]:
            _note("generalizeCommands.ignoreErrors")
        toks2, ks2 = _flatten(res)
        wit["after"] = _tok_json(toks2)
        after = exec_all(toks2, cff2, limit, blend_ks=ks2)
        judge("generalizeCommands", before, after, "topology", limit, wit=wit)
        if not _is_general(res):
            _rep("generalizeCommands", "not-general", "result is not in general form", wit)
        if toks2 != st["toks"]:
            _forms_keys("gen", before[0], None)

    hooks.attach(S, "generalizeCommands", pre=pre_gen, post=post_gen, name="generalizeCommands")

    # ---- programToCommands / commandsToProgram
    def _nr(getNumRegions):
        if getNumRegions is None:
            return None
        return lambda vs: getNumRegions(vs)

    def pre_p2c(a, kw):
        return {"toks": list(a[0])}

    def post_p2c(st, a, kw, res, exc):
        if st is None:
            return
        toks = st["toks"]
        cff2, limit = _dialect(toks)
        try:
            before = exec_all(toks, cff2, limit, num_regions=_nr(a[1]), auto=True)
            limit = _cur["last_limit"]
        except Exception:
            _note("programToCommands.precondition.numRegions-failed")
            return
        if any(isinstance(b, str) for b in before):
            _note("programToCommands.precondition.not-self-contained")
            return
        wit = {"before": _tok_json(toks)}
        if exc is not None:
            if any(b.errors and set(map(_errclass, b.errors)) - {"missing-endchar"} for b in before):
                return
            _note("exception-seen-by-monitor")
            return
        toks2, ks2 = _flatten(res)
        wit["after"] = _tok_json(toks2)
        after = exec_all(toks2, cff2, limit, blend_ks=ks2)
        judge("programToCommands", before, after, "topology", limit, wit=wit)
        _cur["p2c_bad"] = False
        b0 = before[0]
        if not (set(map(_errclass, b0.errors)) - {"missing-endchar"}) and not _width_split_ok(res, b0.first_clear):
            _cur["p2c_bad"] = True
            wit["commands_head"] = repr(res[:3])[:300]
            _rep("programToCommands", "width-split", "first stack-clearing operator %r has %d operands in the program but "
                 "the command list splits them illegally (a spurious width)" % b0.first_clear, wit, blends=_has_blend(toks))

    hooks.attach(S, "programToCommands", pre=pre_p2c, post=post_p2c, name="programToCommands")

    def pre_c2p(a, kw):
        toks, ks = _flatten(a[0])
        return {"toks": toks, "ks": ks}

    def post_c2p(st, a, kw, res, exc):
        if st is None:
            return
        toks = st["toks"]
        cff2, limit = _dialect(toks)
        before = exec_all(toks, cff2, limit, blend_ks=st["ks"], auto=True)
        limit = _cur["last_limit"]
        if any(isinstance(b, str) for b in before):
            _note("commandsToProgram.precondition.not-self-contained")
            return
        wit = {"before": _tok_json(toks)}
        if exc is not None:
            _note("exception-seen-by-monitor")
            return
        wit["after"] = _tok_json(res)
        # the result is a plain program: region counts are those of the command lists, in order
        after = exec_all(list(res), cff2, limit, blend_ks=st["ks"])
        judge("commandsToProgram", before, after, "topology", limit, wit=wit)

    hooks.attach(S, "commandsToProgram", pre=pre_c2p, post=post_c2p, name="commandsToProgram")

    # ---- specializeProgram (composition; **kwargs => raw args)
    def pre_sp(a, kw):
        return {"toks": list(a[0])}

    def post_sp(st, a, kw, res, exc):
        if st is None:
            return
        gnr = a[1] if len(a) > 1 else kw.get("getNumRegions")
        maxstack = kw.get("maxstack", 48)
        pt = bool(kw.get("preserveTopology", False))
        gf = bool(kw.get("generalizeFirst", True))
        toks = st["toks"]
        cff2, limit = _dialect(toks, maxstack)
        try:
            before = exec_all(toks, cff2, limit, num_regions=_nr(gnr), auto=True)
            limit = _cur["last_limit"]
        except Exception:
            return
        if any(isinstance(b, str) or (set(map(_errclass, b.errors)) - {"missing-endchar"}) for b in before):
            _note("specializeProgram.precondition.malformed-input")
            return
        if not gf:
            if any(t in SPECIAL_PATH for t in toks if isinstance(t, str)):
                _note("specializeProgram.precondition.not-general-form")
                return
            # multi-segment rlineto/rrcurveto are not general form either
            r0 = before[0]
            if any((f[0] in ("rlineto", "rrcurveto") and f[1] != "n1") or (f[0] == "blend" and not f[1].startswith("n1/")) for f in r0.forms):
                _note("specializeProgram.precondition.not-general-form")
                return
        opts = {"generalizeFirst": gf, "preserveTopology": pt}
        wit = {"before": _tok_json(toks), "options": {k: v for k, v in kw.items() if k != "getNumRegions"}}
        if exc is not None:
            _note("exception-seen-by-monitor")
            return
        wit["after"] = _tok_json(res)
        try:
            after = exec_all(list(res), cff2, limit, num_regions=_nr(gnr))
        except Exception as e:
            after = ["T2Error: %r" % e] * len(before)
        judge("specializeProgram", before, after, "topology" if pt else "fill", limit, wit=wit, extra=opts)

    hooks.attach(S, "specializeProgram", pre=pre_sp, post=post_sp, name="specializeProgram")

    # ---- T2CharString.compile / decompile
    def pre_compile(a, kw):
        cs = a[0]
        if cs.bytecode is not None or cs.program is None:
            return None
        return {"prog": list(cs.program)}

    def post_compile(st, a, kw, res, exc):
        if st is None:
            return
        cs, isCFF2 = a[0], bool(a[1])
        prog = st["prog"]
        nums = [t for t in prog if not isinstance(t, (str, bytes, bytearray))]
        if any(isinstance(t, bool) or not isinstance(t, (int, float)) for t in nums):
            return
        if any(isinstance(t, int) and not -32768 <= t <= 32767 for t in nums):
            _note("compile.precondition.int-wider-than-int16")
            return
        if any(isinstance(t, float) and not (-32768 <= t < 32768) for t in nums):
            _note("compile.precondition.out-of-16.16-range")
            return
        wit = {"program": _tok_json(prog), "isCFF2": isCFF2}
        if exc is not None:
            known = {"hstem", "vstem"} | set(t2ref.OPS1.values()) | set(t2ref.OPS2.values()) | {"ignore"}
            if isinstance(exc, PS.CharStringCompileError) and (
                    (prog and not isinstance(prog[-1], str)) or any(isinstance(t, str) and t not in known for t in prog)):
                return    # documented rejections
            _note("exception-seen-by-monitor")
            return
        bc = cs.bytecode
        _cur["n"] += 1
        why = t2ref.walk_program_vs_bytes(prog, bc, cff2=isCFF2)
        if why:
            wit["bytecode"] = bytes(bc).hex()[:600]
            _rep("T2CharString.compile", "encoding", "byte code does not encode the program: %s" % why, wit)
            return
        nfrac = sum(1 for t in nums if isinstance(t, float) and t != int(t))
        _cur["keys"].add("compile|%s%s%s" % ("cff2" if isCFF2 else "cff", "/frac" if nfrac else "", "/mask" if any(isinstance(t, bytes) for t in prog) else ""))
        if _cur["draw_budget"] > 0:
            _cur["draw_budget"] -= 1
            before = cs_exec(cs, cff2=isCFF2, code=prog)
            if any(isinstance(b, str) or b.errors for b in before):
                return      # a subroutine (or malformed charstring) cannot be executed on its own
            after = cs_exec(cs, cff2=isCFF2, code=bytes(bc))
            tol = max(1e-6, (nfrac + 1) * 2.0 ** -17 * 1.001) if nfrac else 1e-6
            judge("T2CharString.compile", before, after, "topology", 513 if isCFF2 else 48, tol=tol, wit=wit)

    hooks.attach(PS.T2CharString, "compile", pre=pre_compile, post=post_compile, name="T2CharString.compile")

    def pre_decompile(a, kw):
        cs = a[0]
        if cs.bytecode is None:
            return None
        return {"bc": bytes(cs.bytecode)}

    def _judge_decompile(name, st, cs, exc, in_context):
        bc = st["bc"]
        wit = {"bytecode": bc.hex()[:600]}
        cff2 = bool(getattr(cs.private, "in_cff2", False)) if cs.private is not None else False
        ref = cs_exec(cs, trace=True, locs=[None], code=bc)[0] if in_context else "T2Error: no context"
        if exc is not None:
            _note("exception-seen-by-monitor")
            return
        prog = cs.program
        if prog is None:
            return
        _cur["n"] += 1
        wit["program"] = _tok_json(prog)
        why = t2ref.walk_program_vs_bytes(prog, bc)
        if why:
            _rep(name, "decoding", "program does not denote the byte code: %s" % why, wit)
            return
        if not isinstance(ref, str) and not ref.errors and ref.tokens is not None:
            # independent tokenisation (own hint counting => mask lengths), up to endchar
            n = len(ref.tokens)
            if list(prog[:n]) != ref.tokens:
                k = next((i for i, (x, y) in enumerate(zip(prog, ref.tokens)) if x != y), min(len(prog), n))
                _rep(name, "tokens", "token %d differs from the reference reader: %r vs %r" % (
                    k, prog[k:k + 3], ref.tokens[k:k + 3]), wit)
            _cur["keys"].add("decompile|%s%s" % ("cff2" if cff2 else "cff", "/mask" if ref.masks else ""))

    def post_decompile(st, a, kw, res, exc):
        if st is None:
            return
        _judge_decompile("T2CharString.decompile", st, a[0], exc, True)

    hooks.attach(PS.T2CharString, "decompile", pre=pre_decompile, post=post_decompile, name="T2CharString.decompile")

    def pre_execute(a, kw):
        cs = a[1]
        if getattr(cs, "bytecode", None) is None:
            return None
        return {"bc": bytes(cs.bytecode), "depth": len(a[0].callingStack)}

    def post_execute(st, a, kw, res, exc):
        if st is None or exc is not None:
            return
        # subroutines are decompiled as a side effect of executing their caller: only the
        # token-level translation can be validated (no stand-alone context)
        _judge_decompile("T2Decompiler.execute", st, a[1], None, False)

    hooks.attach(PS.SimpleT2Decompiler, "execute", pre=pre_execute, post=post_execute, name="T2Decompiler.execute")

    # ---- whole-font transforms
    def mk_font_monitor(name, mode, get_cff=lambda x: x):
        def pre(a, kw):
            return {"snap": _snap_font(get_cff(a[0]))}

        def post(st, a, kw, res, exc):
            if st is None:
                return
            if exc is not None:
                # judged by the driver (ctx.lib) which knows whether the input was valid
                return
            after = _snap_font(get_cff(a[0]))
            _judge_font(name, st["snap"], after, mode, _limit_of)
            if name == "desubroutinize":
                left = sum(1 for rs in after.values() for r in rs[:1] if not isinstance(r, str) and (r.ops["callsubr"] or r.ops["callgsubr"]))
                if left:
                    _note("desubroutinize.calls-left", left)
            if name == "remove_hints":
                left = sum(1 for rs in after.values() for r in rs[:1] if not isinstance(r, str) and (r.n_hints or r.masks))
                if left:
                    _note("remove_hints.hints-left", left)
        return pre, post

    for fname, mode in (("desubroutinize", "topology"), ("remove_hints", "topology"), ("remove_unused_subroutines", "topology")):
        pre, post = mk_font_monitor(fname, mode)
        hooks.attach(TR, fname, pre=pre, post=post, name=fname)

    def pre_to2(a, kw):
        font = a[0]
        if "CFF " not in font:
            return None
        return {"snap": _snap_font(font["CFF "].cff), "hmtx": dict(font["hmtx"].metrics) if "hmtx" in font else None}

    def post_to2(st, a, kw, res, exc):
        if st is None or exc is not None:
            return
        font = a[0]
        after = _snap_font(font["CFF2"].cff)
        _judge_font("convertCFFToCFF2", st["snap"], after, "topology", lambda r: 513, width=False)
        if st["hmtx"] is not None and dict(font["hmtx"].metrics) != st["hmtx"]:
            _rep("convertCFFToCFF2", "width", "hmtx changed", {})
        for name, rs in after.items():
            for r in rs[:1]:
                if not isinstance(r, str) and r.width is not None:
                    _rep("convertCFFToCFF2", "format", "result executed as CFF", {"glyph": name})

    hooks.attach(C12M, "convertCFFToCFF2", pre=pre_to2, post=post_to2, name="convertCFFToCFF2")

    def pre_to1(a, kw):
        font = a[0]
        if "CFF2" not in font:
            return None
        cff = font["CFF2"].cff
        if hasattr(cff.topDictIndex[0], "VarStore"):
            _note("convertCFF2ToCFF.precondition.variable-font")
            return None
        return {"snap": _snap_font(cff)}

    def post_to1(st, a, kw, res, exc):
        if st is None or exc is not None:
            return
        font = a[0]
        after = _snap_font(font["CFF "].cff)
        # glyph names are replaced by cidNNNNN: match by glyph index
        order_b = list(st["snap"].keys())
        top = font["CFF "].cff.topDictIndex[0]
        metrics = font["hmtx"].metrics
        names_after = list(top.charset)
        order = font.getGlyphOrder()
        byidx = {}
        for i, nm in enumerate(names_after):
            byidx[i] = nm
        remap = {}
        for i, g in enumerate(order):
            if g in st["snap"] and i in byidx and byidx[i] in after:
                remap[g] = after[byidx[i]]
        sel = _cur.get("glyphs")
        if sel is not None:
            # the snapshot after conversion used the old names for selection: redo by index
            css = top.CharStrings
            for i, g in enumerate(order):
                if g in st["snap"] and g not in remap and i in byidx:
                    remap[g] = cs_exec(css[byidx[i]], cff2=False)
        before = {g: st["snap"][g] for g in remap}
        # specializeProgram may have been applied (stack > 48): filled-outline equality
        _judge_font("convertCFF2ToCFF", before, remap, "fill", lambda r: 48, width=False, limit_before=513)
        for g, rs in remap.items():
            r = rs[0]
            if isinstance(r, str) or isinstance(before[g][0], str) or before[g][0].errors:
                continue
            _cur["n"] += 1
            if r.width is None or abs(r.width - metrics[g][0]) > 1e-9:
                _rep("convertCFF2ToCFF", "width", "charstring width %r but hmtx advance %r" % (r.width, metrics[g][0]),
                     {"glyph": g})

    hooks.attach(C21M, "convertCFF2ToCFF", pre=pre_to1, post=post_to1, name="convertCFF2ToCFF")

    # ---- optimizeWidths
    def post_ow(st, a, kw, res, exc):
        widths = a[0]
        ws = list(widths.keys()) if hasattr(widths, "items") else list(widths)
        if not ws or any(isinstance(w, bool) or not isinstance(w, int) for w in ws):
            return
        wit = {"widths": sorted(set(ws))[:60]}
        _cur["n"] += 1
        if exc is not None:
            _note("exception-seen-by-monitor")
            return
        d, nom = res
        wit["result"] = [d, nom]
        if isinstance(d, bool) or isinstance(nom, bool) or not isinstance(d, int) or not isinstance(nom, int):
            _rep("optimizeWidths", "width", "defaultWidthX/nominalWidthX not integers: %r" % (res,), wit)
            return
        # re-encoding w as [w - nominal] (or nothing when w == default) must give w back through a T2 reader
        for w in set(ws):
            toks = ([] if w == d else [w - nom]) + ["endchar"]
            if w != d and not -32768 <= w - nom <= 32767 and -32768 <= min(ws) and max(ws) <= 32767 and max(ws) - min(ws) <= 32767:
                _rep("optimizeWidths", "width", "width %d not encodable relative to nominal %d" % (w, nom), wit)
                break
            r = t2ref.run(toks, default_width=d, nominal_width=nom)
            if r.width != w:
                _rep("optimizeWidths", "width", "width %d reads back as %r" % (w, r.width), wit)
                break
        span = max(ws) - min(ws)
        _cur["keys"].add("widths|n%d/span%s" % (min(len(set(ws)), 4), "<108" if span < 108 else "<1132" if span < 1132 else ">=1132"))
        if len(set(ws)) <= 12 and span <= 400:
            bd, bn = W.optimizeWidthsBruteforce(ws)
            if W.byteCost(ws, d, nom) > W.byteCost(ws, bd, bn):
                _note("optimizeWidths.not-optimal(outside C12)")

    hooks.attach(W, "optimizeWidths", post=post_ow, name="optimizeWidths")

    # ---- decision sites
    sc = S.specializeCommands
    for name, pat in [
        ("spec.merge-rmoveto", r'^\s*"rmoveto",\s*$'),
        ("spec.00curveto-to-line", r"c, args = _categorizeVector\(args\[1:3\]\)"),
        ("spec.merge-hvline", r"commands\[i - 1\] = \(op, new_args\)"),
        ("spec.revert-line", r'commands\[i\] = \("rlineto", args\)'),
        ("spec.revert-curve", r'commands\[i\] = \("rrcurveto", args\)'),
        ("spec.revert-pos0", r"pos = 0"), ("spec.revert-pos1", r"pos = 1"),
        ("spec.revert-pos4", r"pos = 4"), ("spec.revert-pos5", r"pos = 5"),
        ("spec.new-rlinecurve", r'new_op = "rlinecurve"'), ("spec.new-rcurveline", r'new_op = "rcurveline"'),
        ("spec.extend-linecurve", r"new_op = op2"),
        ("spec.curve-r-first", r'new_op = "r" \+ d \+ "curveto"'),
        ("spec.curve-r-last", r'new_op = d0 \+ "r" \+ "curveto"'),
        ("spec.curve-hv", r'new_op = d0 \+ d \+ "curveto"'),
        ("spec.merge-generic", r"commands\[i - 1\] = \(new_op, args1 \+ args2\)"),
        ("spec.merge-refused", r"stackUse = args1StackUse"),
        ("spec.resolve-0op", r'commands\[i\] = "h" \+ op\[1:\], args'),
        ("spec.swap-last-two", r"args = args\[:-2\] \+ args\[-1:\] \+ args\[-2:-1\]"),
        ("spec.swap-first-two", r"args = args\[1:2\] \+ args\[:1\] \+ args\[2:\]"),
        ("spec.blend-convert", r"commands\[i\] = op, _convertToBlendCmds\(args\)"),
    ]:
        probes.add_site(name, sc, pat)
    probes.add_site("spec.blend-merge", S._convertToBlendCmds, r"blendlist\.append\(args\[i\]\)")
    probes.add_site("spec.addargs-blend", S._addArgs, r"return \[_addArgs\(a\[0\], b\)\] \+ a\[1:\]")
    for m in ("rmoveto", "hmoveto", "vmoveto", "rlineto", "hlineto", "vlineto", "rrcurveto", "hhcurveto", "vvcurveto",
              "hvcurveto", "vhcurveto", "rcurveline", "rlinecurve"):
        probes.add_site("gen." + m, getattr(S._GeneralizerDecombinerCommandsMap, m), r"^\s*(l = len|if |args, last_args)")
    probes.add_site("gen.blend", S._convertBlendOpToArgs, r"numBlends = args\[-1\]")
    probes.add_site("desub.splice", TR._DesubroutinizingT2Decompiler.execute, r"desubroutinized\[idx - 2 : idx\] = expansion")
    probes.add_site("desub.cut-endchar", TR._DesubroutinizingT2Decompiler.execute, r'desubroutinized\.index\("endchar"\)')
    probes.add_site("dehint.implicit-vstem", TR._DehintingT2Decompiler.processHintmask, r"hints\.last_hint = index \+ 1")
    probes.add_site("dehint.subr-keep-call", TR._DehintingT2Decompiler.processSubr, r"hints\.last_hint = index - 2")
    probes.add_site("dehint.subr-drop-call", TR._DehintingT2Decompiler.processSubr, r"hints\.last_hint = index$")
    probes.add_site("dehint.subr-delete", TR._DehintingT2Decompiler.processSubr, r"hints\.deletions\.append\(index\)")
    probes.add_site("dehint.delete-calls", TR._cs_drop_hints, r"del p\[idx - 2 : idx\]")
    probes.add_site("dehint.reinsert-width", TR._cs_drop_hints, r"0, charstring\.width - charstring\.private\.nominalWidthX")
    probes.add_site("dehint.drop-mask", TR._cs_drop_hints, r"del p\[i : i \+ 2\]")
    probes.add_site("to2.width-in-subr", C12M._convertCFFToCFF2, r"program\[:0\] = subrProgram")
    probes.add_site("to2.pop-width", C12M._convertCFFToCFF2, r"^\s*program\.pop\(0\)")
    probes.add_site("to2.pop-endchar", C12M._convertCFFToCFF2, r"^\s*program\.pop\(\)")
    probes.add_site("to1.insert-width", C21M._convertCFF2ToCFF, r"cs\.program\.insert\(0, width - private\.nominalWidthX\)")
    probes.add_site("to1.stack-fixup", C21M._convertCFF2ToCFF, r"desubroutinizeCharString\(cs\)")


def _flatten(commands):
    from vmon.gen.c12_prog import commands_to_tokens
    return commands_to_tokens(commands)


# ---------------------------------------------------------------- rendering layer (HarfBuzz / FreeType)
REGIONS = [{"wght": (0.0, 1.0, 1.0)}, {"wght": (-1.0, -1.0, 0.0)}, {"wdth": (0.0, 1.0, 1.0)},
           {"wght": (0.0, 1.0, 1.0), "wdth": (0.0, 1.0, 1.0)}]
VARDATA = [[0, 1, 2], [0], [1, 3]]
GEN_LOCS = [{}, {"wght": 0.5, "wdth": 0.25}, {"wght": -0.75, "wdth": 1.0}]


def _all_int(rec):
    for op, a in rec:
        for p in a:
            if p is not None and (p[0] != int(p[0]) or p[1] != int(p[1])):
                return False
    return True


def _maxabs(rec):
    m = 1.0
    for op, a in rec:
        for p in a:
            if p is not None:
                m = max(m, abs(p[0]), abs(p[1]))
    return m


def _ulp32(m):
    import math
    return 2.0 ** (math.floor(math.log2(max(m, 1.0))) - 23)


class Renderer:
    def __init__(self, data, loc=None, axes=None):
        from vmon.oracle.hbft import HB, FT
        self.hb = HB(data, variations=loc or None)
        self.ft = None
        try:
            self.ft = FT(data)
            if loc and axes:
                self.ft.set_coords([loc.get(t, d) for t, d in axes])
        except Exception:
            self.ft = None

    def hb_outline(self, gid):
        return self.hb.outline(gid)

    def ft_outline(self, gid):
        if self.ft is None:
            return None
        try:
            return self.ft.outline(gid)[0]
        except Exception as e:
            return "FT: %s" % e


def render_compare(ctx, op, r0, r1, pairs, mode="fill", variable=False, extra=None, witness=None, diag=None):
    """pairs: (gid0, gid1, label).  Violations when HarfBuzz/FreeType draw the rewritten glyph differently."""
    extra0 = extra or {}
    for g0, g1, label in pairs:
        extra = extra0
        a = r0.hb_outline(g0)
        b = r1.hb_outline(g1)
        integral = _all_int(a) and _all_int(b)
        tol = 1e-6 if integral and not variable else 2 * _ulp32(max(_maxabs(a), _maxabs(b))) + 1e-6
        if mode == "topology":
            ok, why = same_topology(a, b, tol)
        else:
            ok, why = same_fill(a, b, tol)
        ctx.judged()
        if not ok:
            if diag:
                extra = dict(extra0, **diag(g0, g1))
            w = dict(witness(label) if witness else {}, label=str(label), before=a[:30], after=b[:30])
            ctx.violation(dict({"kind": "render", "op": op, "oracle": "harfbuzz", "field": "topology" if mode == "topology" else "path"}, **extra),
                          "%s: HarfBuzz draws %s differently (%s)" % (op, label, why), w)
        fa = r0.ft_outline(g0)
        fb = r1.ft_outline(g1)
        if fa is None or fb is None:
            continue
        if isinstance(fb, str) and not isinstance(fa, str):
            ctx.judged()
            if diag:
                extra = dict(extra0, **diag(g0, g1))
            w = dict(witness(label) if witness else {}, label=str(label), error=fb)
            ctx.violation(dict({"kind": "render", "op": op, "oracle": "freetype", "field": "rejected"}, **extra),
                          "%s: FreeType rejects the rewritten glyph %s (%s)" % (op, label, fb), w)
            continue
        if isinstance(fa, str):
            ctx.note("freetype.rejects-before")
            continue
        if integral and not variable:
            ctx.judged()
            ok, why = same_fill(fa, fb, 1e-6)
            if not ok:
                if diag:
                    extra = dict(extra0, **diag(g0, g1))
                w = dict(witness(label) if witness else {}, label=str(label), before=fa[:30], after=fb[:30])
                ctx.violation(dict({"kind": "render", "op": op, "oracle": "freetype", "field": "path"}, **extra),
                              "%s: FreeType draws %s differently (%s)" % (op, label, why), w)


def bare_widths(data):
    """{gid: width} read by FreeType from the bare CFF table (charstring widths), or None."""
    import freetype
    import struct
    n = struct.unpack(">H", data[4:6])[0]
    raw = None
    for i in range(n):
        tag, cs, off, ln = struct.unpack(">4sLLL", data[12 + 16 * i:28 + 16 * i])
        if tag == b"CFF ":
            raw = data[off:off + ln]
    if raw is None:
        return None
    try:
        face = freetype.Face(io.BytesIO(raw))
    except Exception:
        return None
    out = {}
    for gid in range(face.num_glyphs):
        try:
            face.load_glyph(gid, freetype.FT_LOAD_NO_SCALE | freetype.FT_LOAD_NO_HINTING | freetype.FT_LOAD_NO_BITMAP)
            out[gid] = face.glyph.metrics.horiAdvance
        except Exception:
            out[gid] = None
    out["_face"] = face
    return out


# ---------------------------------------------------------------- cases
CFF_PRED = lambda r: r.get("outlines") in ("CFF ", "CFF2") and r.get("head") and r.get("complete", True)
QUICK_FONTS = [
    "cffLib/data/LinLibertine_RBI.otf", "ttLib/data/TestVGID-Regular.otf", "subset/data/test_hinted_subrs_CFF.ttx",
    "subset/data/test_cntrmask_CFF.ttx", "subset/data/Lobster.subset.otf", "cffLib/data/TestSparseCFF2VF.ttx",
    "ttLib/data/I.otf", "varLib/data/master_ttx_varfont_otf/TestCFF2VF.ttx", "ttLib/tables/data/C_F_F__2.ttx",
    "cffLib/data/TestFDSelect4.ttx", "subset/data/TestCID-Regular.ttx", "ttLib/tables/data/aots/base.otf",
    "varLib/instancer/data/CFF2Instancer-VF-1.ttx", "merge/data/CFFFont1.ttx", "cffLib/data/CFFToCFF2-1.otf",
    "varLib/data/master_cff2_input/TestCFF2_Regular.ttx", "ttx/data/TestOTF.otf",
    "subset/data/harfbuzz_repacker.ttx",
]
FONT_OPS = ["desubroutinize", "remove_hints", "remove_unused_subroutines", "convert", "roundtrip", "subset"]


def cases(tier, seed):
    T = tier == "thorough"
    cs = []

    def add(kind, **kw):
        kw["kind"] = kind
        kw["id"] = "%s:%s" % (kind, ",".join("%s=%s" % (k, v) for k, v in sorted(kw.items()) if k not in ("kind",)))
        kw["seed"] = seed
        cs.append(kw)

    for dialect, numeric, parts in (("cff", "int", 12), ("cff", "fixed", 6), ("cff", "real", 3),
                                    ("cff2", "int", 8), ("cff2", "fixed", 4), ("cff2-noblend", "int", 3)):
        for part in range(parts * (5 if T else 1)):
            add("prog", dialect=dialect, numeric=numeric, part=part,
                n=(40 if dialect == "cff" else 20) if T else (30 if dialect == "cff" else 16))
    for part in range(6 if T else 2):
        add("long", dialect="cff", part=part, n=14)
        add("long", dialect="cff2", part=part, n=8)
    for dialect in ("cff", "cff2s", "cff2v"):
        for part in range(16 if T else 4):
            add("gfont", dialect=dialect, part=part, n=40, pad=(1300 if part % 4 == 3 else 0))
    # subroutine INDEX sizes at and around the bias boundaries (1240, 33900), and sizes that reach a
    # boundary only after pruning unused subroutines
    if T:
        for sz in (1238, 1239, 1240, 1241, 1242, 33898, 33899, 33900, 33901, 33902):
            big = {"timeout": 900} if sz > 30000 else {}
            add("bias", dialect="cff", g=sz, l=5, gu=-1, lu=-1, **big)
            add("bias", dialect="cff", g=7, l=sz, gu=-1, lu=-1, **big)
            tot = 1300 if sz < 2000 else 34000
            if sz in (33898, 33902):
                continue        # pruning *onto* the upper boundary: 33899..33901 (each font costs ~1 CPU-minute)
            add("bias", dialect="cff", g=tot, l=9, gu=sz, lu=-1, **big)
            add("bias", dialect="cff", g=9, l=tot, gu=-1, lu=sz, **big)
        for sz in (1239, 1240, 33900):
            big = {"timeout": 900} if sz > 30000 else {}
            tot = 1300 if sz < 2000 else 34000
            add("bias", dialect="cff2s", g=sz, l=sz + 1 if sz < 2000 else 6, gu=-1, lu=-1, **big)
            add("bias", dialect="cff2s", g=tot, l=tot if sz < 2000 else 6, gu=sz, lu=sz - 1 if sz < 2000 else -1, **big)
    else:
        add("bias", dialect="cff", g=1240, l=1239, gu=-1, lu=-1)
        add("bias", dialect="cff", g=1300, l=1300, gu=1240, lu=1239)
        add("bias", dialect="cff2s", g=1241, l=1240, gu=-1, lu=-1)
        add("bias", dialect="cff2s", g=1300, l=1245, gu=1240, lu=1240)
    for part in range(8 if T else 2):
        add("seac", part=part)
    for part in range(8 if T else 2):
        add("widths", part=part, n=300 if T else 150)
    recs = corpus.fonts(pred=CFF_PRED)
    if not T:
        byp = {r["path"]: r for r in recs}
        recs = [byp[p] for p in QUICK_FONTS if p in byp]
    for ri, r in enumerate(recs):
        big = r.get("numGlyphs", 0) > 1000
        ops = FONT_OPS
        if "/aots/" in r["path"] and r["path"] != "ttLib/tables/data/aots/base.otf":
            # 200 layout-test fonts sharing one set of outlines: two rewrites each, rotating
            ops = [FONT_OPS[ri % 6], FONT_OPS[(ri + 3) % 6]]
        if big and not T:
            ops = ["desubroutinize", "remove_hints", "convert"]     # quick: the large font gets the three core rewrites
        for op in ops:
            add("font", path=r["path"], op=op, **({"timeout": 600, "single": not T} if big else {}))
        ng = r.get("numGlyphs", 0)
        step = 250 if T else 600
        nsl = max(1, -(-ng // step))
        if not T and big:
            # quick: a slice of the large font
            add("fontcs", path=r["path"], lo=880, hi=1000)
        else:
            for k in range(nsl):
                add("fontcs", path=r["path"], lo=k * step, hi=min(ng, (k + 1) * step))
    return cs


def run_case(case, ctx):
    _cur["keys"] = set()
    _cur["n"] = 0
    _cur["notes"] = {}
    _cur["glyphs"] = None
    _cur["draw_budget"] = 120
    rnd = random.Random("%s/%s" % (case["id"], case["seed"]))
    try:
        globals()["drv_" + case["kind"]](case, rnd, ctx)
    finally:
        ctx.judged(_cur["n"])
        for k in _cur["keys"]:
            ctx.nontrivial(k)
        for k, v in _cur["notes"].items():
            ctx.note(k, v)
        if ctx.sample is None:
            ctx.sample = {"case": {k: v for k, v in case.items() if k != "seed"}, "monitor_verdicts": _cur["n"],
                          "keys": sorted(_cur["keys"])[:10]}


def _try(ctx, op, fn, *a, expected=(), **kw):
    """Library call on a valid input: an exception is a violation; the batch goes on."""
    try:
        with ctx.lib(op, expected=expected):
            return True, fn(*a, **kw)
    except LibRaised:
        return False, None


# ---------------------------------------------------------------- driver: generated programs
def _gen_item(rnd, dialect, numeric, style=None, **genkw):
    from vmon.gen import c12_prog as GP
    cff2 = dialect.startswith("cff2")
    d = GP.gen_program(rnd, cff2=cff2, numeric=numeric, style=style, **genkw)
    p = d["program"]
    vs = 0
    if dialect == "cff2":
        vs = rnd.choice([0, 0, 1, 2])
        p = GP.blendify(rnd, p, len(VARDATA[vs]), pblend=rnd.choice([0.1, 0.35, 0.8]))
        if vs:
            p = [vs, "vsindex"] + p
    d["program"] = p
    d["vs"] = vs
    return d


def _ref(p, cff2, blend=True, lsubrs=(), gsubrs=(), loc=None, widths=(333, 500)):
    kw = dict(cff2=cff2, lsubrs=lsubrs, gsubrs=gsubrs, default_width=widths[0], nominal_width=widths[1])
    if cff2 and blend:
        kw["num_regions"] = lambda vs: len(VARDATA[vs])
        if loc:
            from vmon.gen.c12_font import region_scalar
            sc = [region_scalar(r, loc) for r in REGIONS]
            kw["scalars"] = lambda vs: [sc[i] for i in VARDATA[vs]]
    try:
        return t2ref.run(p, **kw)
    except t2ref.T2Error as e:
        return "T2Error: %s" % e


def _variants(ctx, rnd, p, cff2, blend, general_input):
    from fontTools.cffLib import specializer as S
    gnr = (lambda vs: len(VARDATA[0 if vs is None else vs])) if (cff2 and blend) else None
    fmt = 513 if cff2 else 48
    out = []
    _cur["p2c_bad"] = False
    ok, cmds = _try(ctx, "programToCommands", S.programToCommands, list(p), gnr)
    if not ok:
        return out
    if _cur.get("p2c_bad"):
        # reported once by the programToCommands monitor; everything downstream is a consequence
        ctx.note("skipped.after-programToCommands-width-split")
        return out
    ok, gen = _try(ctx, "generalizeCommands", S.generalizeCommands, cmds)
    if ok:
        ok2, gp = _try(ctx, "commandsToProgram", S.commandsToProgram, gen)
        if ok2:
            out.append(("gen", gp, "topology"))
        ok3, sc = _try(ctx, "specializeCommands", S.specializeCommands, gen, generalizeFirst=False, maxstack=fmt)
        if ok3:
            ok4, sp = _try(ctx, "commandsToProgram", S.commandsToProgram, sc)
            if ok4:
                out.append(("spec-nogen", sp, "fill"))
        ok3, sc = _try(ctx, "specializeCommands", S.specializeCommands, gen, generalizeFirst=False,
                       preserveTopology=True, maxstack=rnd.choice([fmt, 48, 30]))
        if ok3:
            ok4, sp = _try(ctx, "commandsToProgram", S.commandsToProgram, sc)
            if ok4:
                out.append(("spec-nogen-topo", sp, "topology"))
    spec = None
    ok, spec = _try(ctx, "specializeProgram", S.specializeProgram, list(p), gnr, maxstack=fmt)
    if ok:
        out.append(("spec", spec, "fill"))
        ok, rs = _try(ctx, "specializeProgram", S.specializeProgram, list(spec), gnr, maxstack=fmt)
        if ok:
            out.append(("respec", rs, "fill"))
        ok, rg = _try(ctx, "generalizeProgram", S.generalizeProgram, list(spec), gnr)
        if ok:
            out.append(("regen", rg, "fill"))
    ok, st = _try(ctx, "specializeProgram", S.specializeProgram, list(p), gnr, preserveTopology=True, maxstack=fmt)
    if ok:
        out.append(("spec-topo", st, "topology"))
    m = rnd.choice([7, 13, 14, 20, 31, 47, 48]) if not cff2 else rnd.choice([20, 48, 100, 513])
    ok, sm = _try(ctx, "specializeProgram", S.specializeProgram, list(p), gnr, maxstack=m)
    if ok:
        out.append(("spec-max%d" % m, sm, "fill"))
    if general_input and _is_general(cmds):
        ok, sg = _try(ctx, "specializeProgram", S.specializeProgram, list(p), gnr, generalizeFirst=False, maxstack=fmt)
        if ok:
            out.append(("spec-direct", sg, "fill"))
    return out


def _pen_variant(ctx, ref, cff2):
    """Replay the reference path through T2CharStringPen (optimising pen = specializeCommands on
    general-form input, generalizeFirst=False)."""
    from fontTools.pens.t2CharStringPen import T2CharStringPen
    pen = T2CharStringPen(None, None, roundTolerance=0, CFF2=cff2)
    for op, a in ref.path:
        getattr(pen, op)(*a)
    ok, cs = _try(ctx, "T2CharStringPen.getCharString", pen.getCharString)
    return cs.program if ok else None


def _render_batch(ctx, items, cff2, blend, op="prog", widths=(333, 500)):
    """items: list of dict(orig=tokens, ref=Result, variants=[(label, tokens, mode)]).  Build one font
    holding every original and variant, reload it, decompile, and compare renderings."""
    from vmon.gen import c12_font as GF
    from fontTools.ttLib import TTFont
    progs, index = [], []
    for it in items:
        it["gid"] = len(progs) + 1
        progs.append(it["orig"])
        for v in it["variants"]:
            index.append((it, v, len(progs) + 1))
            progs.append(v[1])
    if not progs:
        return
    try:
        with ctx.lib("build-font"):
            if cff2:
                data, names = GF.build_cff2(progs, regions=REGIONS if blend else None, vardata=VARDATA if blend else None)
            else:
                data, names = GF.build_cff(progs, private={"nominalWidthX": widths[1], "defaultWidthX": widths[0]})
    except LibRaised:
        return
    # reload + decompile every charstring (compile o decompile; monitors validate both directions)
    font = TTFont(io.BytesIO(data), lazy=False)
    tag = "CFF2" if cff2 else "CFF "
    css = font[tag].cff.topDictIndex[0].CharStrings
    names = font.getGlyphOrder()       # CFF2 has no charset: names come from the reloaded font
    from vmon.oracle.hbft import RecPen
    for it in items:
        name = names[it["gid"]]
        if not cff2:
            # the table went through the DICT and charstring encoders and back: same width?
            back = cs_exec(css[name], cff2=False, locs=[None])[0]
            ctx.judged()
            if isinstance(back, str) or back.width is None or abs(back.width - it["ref"].width) > 1e-6:
                ctx.violation({"kind": "render", "op": "prog:compile", "oracle": "t2ref", "field": "width"},
                              "width %r reads back as %r after compiling and reloading the CFF table" % (
                                  it["ref"].width, back if isinstance(back, str) else back.width),
                              {"program": _tok_json(it["orig"], 40), "defaultWidthX": widths[0], "nominalWidthX": widths[1]})
        ok, _ = _try(ctx, "T2CharString.decompile", css[name].decompile)
        if not ok:
            continue
        # layer 3: the library's own extractor, cross-check only
        try:
            pen = RecPen()
            css[name].draw(pen)
            if not same_fill(pen.value, it["ref"].path, max(1e-6, (it["ref"].n_fraction + 1) * 2.0 ** -16))[0]:
                ctx.note("xcheck.fonttools-extractor-differs")
            else:
                ctx.note("xcheck.fonttools-extractor-agrees")
        except Exception:
            ctx.note("xcheck.fonttools-extractor-raised")
    for it, v, gid in index[::3]:
        _try(ctx, "T2CharString.decompile", css[names[gid]].decompile)
    locs = GEN_LOCS if (cff2 and blend) else [{}]
    axes = [("wght", 0.0), ("wdth", 0.0)]
    for li, loc in enumerate(locs):
        r = Renderer(data, loc, axes)
        # oracle cross-check: reference machine vs HarfBuzz on the originals
        for it in items:
            ref = it["ref"] if not loc else _ref(it["orig"], cff2, blend, loc=loc)
            if isinstance(ref, str):
                continue
            ho = r.hb_outline(it["gid"])
            tol = 1e-6 if (ref.n_fraction == 0 and not loc) else 2 * _ulp32(_maxabs(ho)) + (ref.n_fraction + 1) * 2.0 ** -16
            if loc:
                tol += ref.ops["blend"] * 1e-5      # HarfBuzz keeps region scalars in float32

            if not same_fill(ref.path, ho, tol)[0]:
                ctx.inconclusive("oracle disagreement t2ref/HarfBuzz on %r" % _tok_json(it["orig"], 60))
                it["bad"] = True
        by_label = {}
        pairs = []
        for it, v, gid in index:
            if it.get("bad"):
                continue
            pairs.append((it["gid"], gid, (v[0], gid)))
            by_label[(v[0], gid)] = (it, v)
        for mode in ("fill", "topology"):
            sub = [p for p in pairs if by_label[p[2]][1][2] == mode]

            def wit(label):
                it, v = by_label[label]
                return {"before": _tok_json(it["orig"]), "after": _tok_json(v[1]), "location": loc}
            def diag(g0, g1, _cache={}):
                # mechanism discriminator: is the rewritten charstring over-deep for its format?
                if g1 not in _cache:
                    out = {}
                    for it, v, gid in index:
                        if gid == g1:
                            rr = _ref(v[1], cff2, blend)
                            if not isinstance(rr, str) and rr.max_stack > (513 if cff2 else 48):
                                out["cause"] = "stack@%s" % rr.max_stack_op
                            break
                    _cache[g1] = out
                return _cache[g1]
            render_compare(ctx, "%s:%s" % (op, mode), r, r, sub, mode=mode, variable=bool(loc), witness=wit, diag=diag)
    if not cff2:
        bw = bare_widths(data)
        if bw:
            for it in items:
                w0 = bw.get(it["gid"])
                if w0 is None:
                    continue
                if w0 != it["ref"].width and it["ref"].width == int(it["ref"].width):
                    ctx.inconclusive("oracle disagreement t2ref/FreeType width %r vs %r" % (it["ref"].width, w0))
                    it["bad"] = True
            for it, v, gid in index:
                if it.get("bad") or v[0] == "pen":
                    continue
                w0, w1 = bw.get(it["gid"]), bw.get(gid)
                if w0 is None:
                    continue
                ctx.judged()
                if w1 != w0:
                    ctx.violation({"kind": "render", "op": "prog:width", "oracle": "freetype", "field": "width" if w1 is not None else "rejected",
                                   "variant": v[0].rstrip("0123456789")},
                                  "FreeType reads width %r for the rewritten charstring (%s), %r before" % (w1, v[0], w0),
                                  {"before": _tok_json(it["orig"]), "after": _tok_json(v[1])})


def drv_prog(case, rnd, ctx):
    dialect = case["dialect"]
    cff2 = dialect.startswith("cff2")
    blend = dialect == "cff2"
    widths = (333, 500)
    if not cff2 and case["numeric"] != "int":
        # real-valued Private DICT widths with exactly 8 significant digits (what the DICT encoder keeps)
        widths = (rnd.choice([333.25, 250.12345, 1000.0625]), rnd.choice([500.12345, 612.34567, 0.5, 487.00001]))
    items = []
    for i in range(case["n"]):
        d = _gen_item(rnd, dialect, case["numeric"])
        p = d["program"]
        ref = _ref(p, cff2, blend, widths=widths)
        if isinstance(ref, str) or ref.errors:
            ctx.note("generator.rejected")
            continue
        general = d["style"] == "general"
        vs = _variants(ctx, rnd, p, cff2, blend, general)
        if not blend and ref.path and rnd.random() < 0.5:
            pp = _pen_variant(ctx, ref, cff2)
            if pp is not None:
                vs.append(("pen", pp, "fill"))
        items.append({"orig": p, "ref": ref, "variants": vs})
        ctx.note("programs")
    _render_batch(ctx, items, cff2, blend, widths=widths)
    if items:
        ctx.sample = {"case": case["id"], "programs": len(items), "example_before": _tok_json(items[0]["orig"], 60),
                      "example_after": [(v[0], _tok_json(v[1], 40)) for v in items[0]["variants"][:3]]}


def drv_long(case, rnd, ctx):
    """Long general-form contours: the merges must stop at the operand-stack limit."""
    from vmon.gen import c12_prog as GP
    cff2 = case["dialect"] == "cff2"
    items = []
    for i in range(case["n"]):
        nseg = rnd.choice([30, 47, 48, 49, 60, 100]) if not cff2 else rnd.choice([150, 260, 300, 520])
        p = GP.gen_long_general(rnd, cff2, nseg, numeric=rnd.choice(["int", "int", "fixed"]), p0=rnd.choice([0, 0.2]))
        blend = False
        if cff2 and rnd.random() < 0.7:
            blend = True
            p = GP.blendify(rnd, p, len(VARDATA[0]), pblend=rnd.choice([0.02, 0.1, 0.5]))
        items.append((p, blend))
    if cff2:
        # directed: plain rrcurveto run + one curve whose last operand is blended + an hv curve (the pair
        # (rrcurveto, hvcurveto) takes the specialiser's no-merge shortcut); sized around the 513 limit
        k = len(VARDATA[0])
        for ncurves in (83, 84, 85, 86):
            g = GP.G(rnd, "int", 0.0, True)
            p = g.moveto(True)
            for _ in range(ncurves):
                p += g.vec("r") + [g.d("x", False), g.d("y", False)] + g.vec("r") + ["rrcurveto"]
            p += g.vec("r") + [g.d("x", False), g.d("y", False), g.d("x", False), g.d("y", False)] + [rnd.choice([1, -5, 40])] * k + [1, "blend", "rrcurveto"]
            p += [g.d("x", False), 0, g.d("x", False), g.d("y", False), 0, g.d("y", False), "rrcurveto"]
            items.append((p, True))
    for blend in (False, True):
        batch = []
        for p, b in items:
            if b != blend:
                continue
            ref = _ref(p, cff2, blend)
            if isinstance(ref, str) or ref.errors:
                ctx.note("generator.rejected")
                continue
            batch.append({"orig": p, "ref": ref, "variants": _variants(ctx, rnd, p, cff2, blend, True)})
            ctx.note("programs")
        _render_batch(ctx, batch, cff2, blend, op="long")


# ---------------------------------------------------------------- driver: whole-font rewrites
TOPO_OPS = {"desubroutinize", "remove_hints", "remove_unused_subroutines", "subset"}


def _malformed_glyphs(data0):
    """Number of glyphs the reference machine cannot execute cleanly (input outside the property's
    'well-formed' quantifier)."""
    from fontTools.ttLib import TTFont
    n = 0
    with hooks.quiet():
        f = TTFont(io.BytesIO(data0), lazy=True)
        tag = "CFF2" if "CFF2" in f else "CFF "
        css = f[tag].cff.topDictIndex[0].CharStrings
        for name in css.keys():
            r = cs_exec(css[name], cff2=(tag == "CFF2"), locs=[None])[0]
            if isinstance(r, str) or {_errclass(e) for e in r.errors} - {"path-before-moveto"}:
                n += 1
    return n


def _apply(ctx, data0, op, lenient=False):
    """The rewrite is run twice on fresh copies: once with the monitors silenced (their snapshot
    reads lazily-loaded tables, which may hide load-order defects) - that run's exceptions and its
    output are what the driver judges - and once monitored, for the post-condition verdicts."""
    with hooks.quiet():
        res = _apply1(ctx, data0, op, report=not lenient)
    if res is None and lenient:
        ctx.skip("rewrite rejected a font with malformed charstrings")
    mon = _apply1(ctx, data0, op, report=(res is not None and not lenient))
    if res is None and mon is not None:
        ctx.note("monitored-run-succeeded-where-plain-run-raised")
        return mon
    return res


class _Quiet:
    """ctx stand-in that swallows violations (second, monitored run of an operation whose plain run
    already reported the exception)."""

    def __init__(self, ctx):
        self.ctx = ctx

    def lib(self, op, expected=(), **kw):
        return self.ctx.__class__(self.ctx.case).lib(op, expected=expected, **kw)

    def skip(self, *a, **k):
        pass

    def note(self, *a, **k):
        self.ctx.note(*a, **k)


_ff_cache = {}


def _font_features(data0):
    """(dialect, '+'-joined union of the t2ref feature flags over all glyphs) - mechanism
    discriminators for exceptions raised by whole-font rewrites."""
    k = hash(data0)
    if k in _ff_cache:
        return _ff_cache[k]
    from fontTools.ttLib import TTFont
    feats = set()
    tag = "CFF "
    try:
        with hooks.quiet():
            f = TTFont(io.BytesIO(data0), lazy=True)
            tag = "CFF2" if "CFF2" in f else "CFF "
            css = f[tag].cff.topDictIndex[0].CharStrings
            for name in css.keys():
                r = cs_exec(css[name], cff2=(tag == "CFF2"), locs=[None])[0]
                if not isinstance(r, str):
                    feats |= r.features
    except Exception:
        pass
    if len(_ff_cache) > 8:
        _ff_cache.clear()
    _ff_cache[k] = {"dialect": "cff2" if tag == "CFF2" else "cff", "features": "+".join(sorted(feats))}
    return _ff_cache[k]


def _apply1(ctx, data0, op, report=True):
    """Apply one whole-font rewrite to a freshly loaded copy.  -> (bytes after, mode) or None."""
    if not report:
        ctx = _Quiet(ctx)
    _ctx = ctx
    ff = _font_features(data0)

    def _try(ctx, opname, fn, *a, **kw):        # exceptions carry the font's discriminators
        try:
            with _ctx.lib(opname, **ff):
                return True, fn(*a, **kw)
        except LibRaised:
            return False, None
    from fontTools.ttLib import TTFont
    from fontTools.cffLib.CFFToCFF2 import convertCFFToCFF2
    from fontTools.cffLib.CFF2ToCFF import convertCFF2ToCFF
    font = TTFont(io.BytesIO(data0), recalcTimestamp=False, recalcBBoxes=False)
    tag = "CFF2" if "CFF2" in font else "CFF "
    variable = "fvar" in font
    mode = "topology"
    if op in ("desubroutinize", "remove_hints", "remove_unused_subroutines"):
        ok, _ = _try(ctx, op, getattr(font[tag].cff, op))
        if not ok:
            return None
    elif op in ("convert", "roundtrip"):
        if tag == "CFF ":
            ok, _ = _try(ctx, "convertCFFToCFF2", convertCFFToCFF2, font)
            if ok and op == "roundtrip":
                mode = "fill"
                ok, mid = _try(ctx, "save-after-convertCFFToCFF2", corpus.save_bytes, font)
                if ok:
                    font = TTFont(io.BytesIO(mid), recalcTimestamp=False, recalcBBoxes=False)
                    ok, _ = _try(ctx, "convertCFF2ToCFF", convertCFF2ToCFF, font)
        else:
            if variable or hasattr(font["CFF2"].cff.topDictIndex[0], "VarStore"):
                ctx.skip("CFF2->CFF needs a non-variable font (documented)")
                return None
            mode = "fill"
            ok, _ = _try(ctx, "convertCFF2ToCFF", convertCFF2ToCFF, font)
            if ok and op == "roundtrip":
                ok, mid = _try(ctx, "save-after-convertCFF2ToCFF", corpus.save_bytes, font)
                if ok:
                    font = TTFont(io.BytesIO(mid), recalcTimestamp=False, recalcBBoxes=False)
                    ok, _ = _try(ctx, "convertCFFToCFF2", convertCFFToCFF2, font)
        if not ok:
            return None
    elif op == "subset":
        from fontTools import subset
        opts = subset.Options()
        opts.desubroutinize = True
        opts.hinting = False
        opts.retain_gids = True
        opts.notdef_outline = True
        opts.glyph_names = True
        opts.layout_features = ["*"]
        opts.name_IDs = ["*"]
        opts.drop_tables = []
        opts.passthrough_tables = True
        opts.recalc_timestamp = False

        def run():
            sub = subset.Subsetter(opts)
            sub.populate(glyphs=font.getGlyphOrder())
            sub.subset(font)
        ok, _ = _try(ctx, "subset", run)
        if not ok:
            return None
    else:
        raise KeyError(op)
    ok, data1 = _try(ctx, "save-after-" + op, corpus.save_bytes, font)
    if not ok:
        return None
    return data1, mode


def _font_locs(data0, rnd):
    """-> (list of user-space locations (dict or None), axes [(tag, default)])"""
    from fontTools.ttLib import TTFont
    f = TTFont(io.BytesIO(data0), lazy=True)
    if "fvar" not in f:
        return [None], None, f["maxp"].numGlyphs
    axes = [(a.axisTag, a.defaultValue) for a in f["fvar"].axes]
    locs = [None]
    locs.append({a.axisTag: a.maxValue for a in f["fvar"].axes})
    locs.append({a.axisTag: a.minValue + (a.maxValue - a.minValue) * rnd.choice([0.25, 0.5, 0.75, 0.125]) for a in f["fvar"].axes})
    return locs, axes, f["maxp"].numGlyphs


class _Diag:
    """Mechanism discriminators for a rendering difference: dialect and structural features of the
    charstring before the rewrite, and whether the rewritten charstring is over-deep (reference
    machine on the charstrings of both fonts)."""

    def __init__(self, data0, data1):
        self.data = (data0, data1)
        self.fonts = [None, None]

    def _cs(self, k, gid):
        from fontTools.ttLib import TTFont
        if self.fonts[k] is None:
            self.fonts[k] = TTFont(io.BytesIO(self.data[k]), lazy=True)
        f = self.fonts[k]
        tag = "CFF2" if "CFF2" in f else "CFF "
        cff = f[tag].cff
        top = cff.topDictIndex[0]
        css = top.CharStrings
        if css.charStringsAreIndexed:
            cs = css.charStringsIndex[gid]
        else:
            cs = css[f.getGlyphOrder()[gid]]
        return cs_exec(cs, cff2=(tag == "CFF2"), locs=[None])[0], tag

    def __call__(self, g0, g1):
        out = {}
        try:
            with hooks.quiet():
                b, tag0 = self._cs(0, g0)
                a, tag1 = self._cs(1, g1)
            out["dialect"] = "cff2" if tag0 == "CFF2" else "cff"
            if not isinstance(b, str):
                out["features"] = "+".join(sorted(b.features))
            if tag1 == "CFF " and tag0 == "CFF2":
                top1 = self.fonts[1]["CFF "].cff.topDictIndex[0]
                if hasattr(top1, "FDSelect"):
                    out["fdselect_after"] = getattr(top1.FDSelect, "format", None)
            if not isinstance(a, str):
                lim = 513 if tag1 == "CFF2" else 48
                if a.max_stack > lim:
                    out["cause"] = "stack@%s%s" % (a.max_stack_op, "/subr" if a.max_stack_in_subr else "")
        except Exception as e:       # diagnosis only
            out["diag_error"] = type(e).__name__
        return out


def _cff_table(data):
    raw = t2ref.sfnt_table(data, b"CFF ")
    if raw is None:
        raw = t2ref.sfnt_table(data, b"CFF2")
    if raw is None:
        raise t2ref.T2Error("no CFF/CFF2 table")
    return t2ref.parse_cff(raw)


def _compare_bytes(ctx, op, data0, data1, mode, gids, diag, pairs=None):
    """Oracle layer on the compiled bytes: the reference machine with its own table reader (own INDEX
    counts, hence own subroutine biases) executes every glyph of the font before and after."""
    try:
        t0 = _cff_table(data0)
    except t2ref.T2Error as e:
        ctx.note("t2ref-bytes.input-not-readable")
        return
    try:
        t1 = _cff_table(data1)
    except t2ref.T2Error as e:
        ctx.judged()
        ctx.violation({"kind": "render", "op": op, "oracle": "t2ref-bytes", "field": "unreadable"},
                      "%s: the rewritten CFF table cannot be read: %s" % (op, e), {})
        return
    if pairs is None and len(t1.glyphs) != len(t0.glyphs):
        ctx.judged()
        ctx.violation({"kind": "render", "op": op, "oracle": "t2ref-bytes", "field": "glyph-count"},
                      "%s: %d charstrings before, %d after" % (op, len(t0.glyphs), len(t1.glyphs)), {})
        return
    naxes = len(t0.regions[0][0]) if (t0.regions and t0.regions[0]) else 0
    locs = [None] + ([[0.5] * naxes] if naxes and t1.regions else [])
    lim1 = 513 if t1.cff2 else 48
    lim0 = 513 if t0.cff2 else 48
    for loc in locs:
        for g, g1 in (pairs if pairs is not None else [(x, x) for x in gids]):
            if g >= len(t0.glyphs):
                continue
            try:
                b = t0.run(g, loc)
            except t2ref.T2Error:
                ctx.note("t2ref-bytes.before-not-executable")
                continue
            if {_errclass(e) for e in b.errors} - BENIGN:
                ctx.note("t2ref-bytes.before-malformed")
                continue
            ctx.judged()
            w = {"gid": g, "normalised_location": loc}
            try:
                if g1 >= len(t1.glyphs):
                    raise t2ref.T2Error("glyph index %d not in the rewritten table" % g1)
                a = t1.run(g1, loc)
            except t2ref.T2Error as e:
                ctx.violation(dict({"kind": "render", "op": op, "oracle": "t2ref-bytes", "field": "unexecutable"}, **diag(g, g1)),
                              "%s: glyph %d of the rewritten table cannot be executed: %s" % (op, g, e), w)
                continue
            ok, why = (same_topology(b.path, a.path) if mode == "topology" else same_fill(b.path, a.path, 1e-6))
            if not ok:
                ctx.violation(dict({"kind": "render", "op": op, "oracle": "t2ref-bytes", "field": "topology" if mode == "topology" else "path"}, **diag(g, g1)),
                              "%s: glyph %d draws differently per the reference machine on the bytes (%s)" % (op, g, why),
                              dict(w, before=b.path[:30], after=a.path[:30]))
            if b.width is not None and a.width is not None and not op.endswith((":convert", ":roundtrip")) and abs(b.width - a.width) > 1e-6:
                ctx.violation(dict({"kind": "render", "op": op, "oracle": "t2ref-bytes", "field": "width"}, **diag(g, g1)),
                              "%s: glyph %d width %r -> %r" % (op, g, b.width, a.width), w)
            new = sorted({_errclass(e) for e in a.errors} - {_errclass(e) for e in b.errors} - {"stack-overflow"})
            for e in new:
                ctx.violation(dict({"kind": "render", "op": op, "oracle": "t2ref-bytes", "field": "arity" if e.startswith("arity") else "format", "error": e}, **diag(g, g1)),
                              "%s: glyph %d of the rewritten table violates the format: %s" % (op, g, [x for x in a.errors if _errclass(x) == e][:3]), w)
            if a.max_stack > lim1 and b.max_stack <= lim0:
                # same mechanism field as FreeType's refusal of an over-deep charstring
                ctx.violation(dict({"kind": "render", "op": op, "oracle": "t2ref-bytes", "field": "rejected"}, **diag(g, g1)),
                              "%s: glyph %d operand stack depth %d at %s exceeds %d" % (op, g, a.max_stack, a.max_stack_op, lim1), w)


def _compare_fonts(ctx, op, data0, data1, mode, rnd, gids=None):
    locs, axes, n = _font_locs(data0, rnd)
    gids = list(range(n)) if gids is None else gids
    diag = _Diag(data0, data1)
    for loc in locs:
        r0 = Renderer(data0, loc, axes)
        r1 = Renderer(data1, loc, axes)
        if r1.hb.glyph_count != r0.hb.glyph_count:
            ctx.judged()
            ctx.violation({"kind": "render", "op": op, "oracle": "harfbuzz", "field": "glyph-count"},
                          "%s: glyph count %d -> %d" % (op, r0.hb.glyph_count, r1.hb.glyph_count), {})
            return
        render_compare(ctx, op, r0, r1, [(g, g, "gid%d" % g) for g in gids], mode=mode, variable=loc is not None,
                       witness=lambda label, loc=loc: {"location": loc}, diag=diag)
    _compare_bytes(ctx, op, data0, data1, mode, gids, diag)
    # charstring widths through FreeType on the bare CFF table
    b0, b1 = bare_widths(data0), bare_widths(data1)
    h0 = Renderer(data0).hb
    if op.endswith((":convert", ":roundtrip")):
        b0 = None       # CFF2 carries no widths: what comes back must be the hmtx advance
    for g in gids:
        if b1 is None:
            break
        w1 = b1.get(g)
        if b0 is not None:
            w0 = b0.get(g)
            if w0 is None:
                continue
            ctx.judged()
            if w1 != w0:
                ctx.violation(dict({"kind": "render", "op": op, "oracle": "freetype", "field": "width" if w1 is not None else "rejected"}, **diag(g, g)),
                              "%s: FreeType reads charstring width %r for gid %d, %r before" % (op, w1, g, w0), {"gid": g})
        else:
            # CFF2 -> CFF: the width written into the charstring must be the hmtx advance
            adv = h0.h_advance(g)
            if adv < 0:
                continue        # HarfBuzz reports 65535 as -1
            ctx.judged()
            if w1 != adv:
                ctx.violation(dict({"kind": "render", "op": op, "oracle": "freetype", "field": "width" if w1 is not None else "rejected"}, **diag(g, g)),
                              "%s: FreeType reads charstring width %r for gid %d, hmtx advance is %r" % (op, w1, g, adv), {"gid": g})


def _prelude_split(p):
    """(number of leading atoms that form [width] + hint section, total atoms)."""
    from vmon.gen.c12_prog import atoms_of
    at = atoms_of(p)
    last = 0
    for i, a in enumerate(at):
        if a[0] in ("hstem", "vstem", "hstemhm", "vstemhm", "hintmask", "cntrmask"):
            last = i + 1
        elif isinstance(a[0], str):
            break
    return last, len(at)


def drv_gfont(case, rnd, ctx):
    built = _gfont_build(case, rnd, ctx)
    if built is None:
        return
    data0, sp, local, glob, shared, cff2, dialect = built
    ops = ["desubroutinize", "remove_hints", "remove_unused_subroutines", "convert", "roundtrip"] + ([] if cff2 else ["subset"])
    for op in ops:
        res = _apply(ctx, data0, op)
        if res is None:
            continue
        data1, mode = res
        _compare_fonts(ctx, "gfont:" + op, data0, data1, mode, rnd)
        _cur["keys"].add("gfont|%s|%s" % (dialect, op))
    ctx.sample = {"case": case["id"], "glyphs": len(sp), "local_subrs": len(local), "global_subrs": len(glob),
                  "shared_preludes": len(shared), "ops": ops}


def _gfont_build(case, rnd, ctx):
    from vmon.gen import c12_prog as GP, c12_font as GF
    dialect = case["dialect"]
    cff2 = dialect != "cff"
    blend = dialect == "cff2v"
    gd = "cff2" if blend else ("cff2-noblend" if cff2 else "cff")
    progs, refs = [], []
    shared = []
    while len(progs) < case["n"]:
        if rnd.random() < 0.3:
            # hint replacement: several mid-path masks, masks recurring (-> shared hint-only subroutines)
            d = _gen_item(rnd, gd, "int", style="ops", hints=rnd.choice(["hm", "hm", "cntr", "hm-implicit"]),
                          mask_rate=0.7, reuse_masks=True)
        else:
            d = _gen_item(rnd, gd, rnd.choice(["int", "int", "int", "fixed"]))
        p = d["program"]
        r = _ref(p, cff2, blend)
        if isinstance(r, str) or r.errors or (not cff2 and (r.width != int(r.width) or r.width < 0)):
            ctx.note("generator.rejected")
            continue
        progs.append(p)
        refs.append(r)
        npre, tot = _prelude_split(p)
        if npre >= 2 and rnd.random() < 0.5 and not (blend and p[:2][-1:] == ["vsindex"]):
            # siblings sharing the hint prelude (and width) with other outlines
            skip = 1 if (not cff2 and r.width_explicit) else 0
            if p[1:2] == ["vsindex"]:
                continue
            pre = GP.flat(GP.atoms_of(p)[:npre])
            idxs = [len(progs) - 1]
            for _ in range(rnd.choice([1, 2, 3])):
                q = _gen_item(rnd, gd, "int")["program"]
                qn, _t = _prelude_split(q)
                if q[1:2] == ["vsindex"] or any(t in ("hintmask", "cntrmask") for t in GP.flat(GP.atoms_of(q)[qn:])):
                    continue
                sib = pre + GP.flat(GP.atoms_of(q)[qn:])
                rs = _ref(sib, cff2, blend)
                if isinstance(rs, str) or rs.errors:
                    continue
                progs.append(sib)
                refs.append(rs)
                idxs.append(len(progs) - 1)
            if len(idxs) > 1 and npre - skip >= 1:
                shared.append((idxs, skip, npre - skip))
    pad = case.get("pad", 0)
    sp, local, glob = GP.subroutinize(rnd, progs, cff2=cff2, max_depth=rnd.choice([1, 2, 3, 5]),
                                      pad_local=pad if case["part"] % 8 == 3 else 0, pad_global=pad, shared=shared,
                                      mask_subrs=0.6)
    for i, q in enumerate(sp):
        r = _ref(q, cff2, blend, lsubrs=local, gsubrs=glob)
        if isinstance(r, str) or r.errors or r.path != refs[i].path or r.width != refs[i].width:
            sp[i] = progs[i]       # e.g. the call operand overflowed the stack: keep this glyph flat
            ctx.note("generator.subroutinised-rejected")
        else:
            ctx.note("subr-depth-%d" % r.subr_depth)
    # evidence: charstrings (glyphs or subroutines) making >= 2 calls to hint-only subroutines
    def _hint_only(body):
        toks = [t for t in body if t != "return"]
        return len(toks) == 2 and toks[0] in ("hintmask", "cntrmask")
    lb, gb = GP._bias(len(local)), GP._bias(len(glob))
    for body in list(sp) + list(local) + list(glob):
        k = 0
        for j, t in enumerate(body):
            if t == "callsubr" and j and isinstance(body[j - 1], int) and 0 <= body[j - 1] + lb < len(local):
                k += _hint_only(local[body[j - 1] + lb])
            elif t == "callgsubr" and j and isinstance(body[j - 1], int) and 0 <= body[j - 1] + gb < len(glob):
                k += _hint_only(glob[body[j - 1] + gb])
        if k >= 2:
            ctx.note("charstrings-with-2+-hint-only-subr-calls")
    names = GF.glyph_names(len(sp))
    if cff2:
        adv = {n: rnd.choice([500, 500, 500, 600, 607, 608, 392, 391, 1632, 1633, rnd.randint(0, 2000)]) for n in names}
    else:
        adv = {n: int(r.width) for n, r in zip(names[1:], refs)}
        adv[".notdef"] = 333
    try:
        with ctx.lib("build-font"):
            if cff2:
                data0, names = GF.build_cff2(sp, local, glob, regions=REGIONS if blend else None,
                                             vardata=VARDATA if blend else None, advances=adv)
            else:
                data0, names = GF.build_cff(sp, local, glob, private={"nominalWidthX": 500, "defaultWidthX": 333}, advances=adv)
    except LibRaised:
        return None
    # the reference machine and HarfBuzz must agree on the input font
    h = Renderer(data0)
    for i, r in enumerate(refs):
        ho = h.hb_outline(i + 1)
        if not same_fill(r.path, ho, 1e-6 if r.n_fraction == 0 else 2 * _ulp32(_maxabs(ho)) + (r.n_fraction + 1) * 2.0 ** -16)[0]:
            ctx.inconclusive("oracle disagreement t2ref/HarfBuzz on generated font glyph %d" % (i + 1))
            return None
    return data0, sp, local, glob, shared, cff2, dialect


SEAC_BASES = [("A", 65), ("E", 69), ("a", 97), ("o", 111), ("n", 110)]
SEAC_ACCENTS = [("acute", 194), ("grave", 193), ("dieresis", 200), ("circumflex", 195), ("tilde", 196)]


def drv_seac(case, rnd, ctx):
    """Name-keyed CFF fonts whose accented glyphs are composed by the seac form of endchar
    (adx ady bchar achar endchar, with and without a leading width): subsetting to the accented glyphs
    alone, and the other whole-font rewrites, must leave what they draw unchanged."""
    from vmon.gen import c12_prog as GP, c12_font as GF
    from fontTools.ttLib import TTFont
    from fontTools import subset
    names, progs = [], []

    def outline_glyph():
        while True:
            d = _gen_item(rnd, "cff", "int", width=rnd.random() < 0.5)
            r = _ref(d["program"], False, False)
            if not isinstance(r, str) and not r.errors and r.width is not None and r.width >= 0 and r.width == int(r.width):
                return d["program"]

    for nm, code in SEAC_BASES + SEAC_ACCENTS:
        names.append(nm)
        progs.append(outline_glyph())
    composed = []
    for k in range(10):
        (bn, bc), (an, ac) = rnd.choice(SEAC_BASES), rnd.choice(SEAC_ACCENTS)
        adx, ady = rnd.randint(-200, 300), rnd.randint(-100, 700)
        form = k % 3
        if form == 0:
            p = [adx, ady, bc, ac, "endchar"]                                   # 4 operands, default width
        elif form == 1:
            p = [rnd.choice([-120, 57, 108, 250, 1131]), adx, ady, bc, ac, "endchar"]   # width + 4 operands
        else:
            p = [rnd.choice([-33, 99, 400]), 10, 20, 300, 40, "hstem", adx, ady, bc, ac, "endchar"]   # width taken by the hint
        names.append("%s%s.%d" % (bn, an, k))
        progs.append(p)
        composed.append(len(progs))           # glyph index (.notdef is 0)
    refs = [_ref(p, False, False) for p in progs]
    local = glob = []
    sp = progs
    if case["part"] % 2:
        sp, local, glob = GP.subroutinize(rnd, progs, cff2=False, max_depth=rnd.choice([1, 2, 3]), mask_subrs=0.5)
        for i, q in enumerate(sp):
            r = _ref(q, False, False, lsubrs=local, gsubrs=glob)
            if isinstance(r, str) or r.errors or r.path != refs[i].path or r.width != refs[i].width or r.seac != refs[i].seac:
                sp[i] = progs[i]
                ctx.note("generator.subroutinised-rejected")
    adv = {n: max(0, int(r.width)) for n, r in zip(names, refs)}
    adv[".notdef"] = 333
    try:
        with ctx.lib("build-font"):
            data0, gnames = GF.build_cff(sp, local, glob, private={"nominalWidthX": 500, "defaultWidthX": 333},
                                         advances=adv, names=names)
    except LibRaised:
        return
    # oracles must agree on the input: byte-level reference machine (with accent composition) vs HarfBuzz
    tab = _cff_table(data0)
    h = Renderer(data0)
    for g in composed:
        rb = tab.run(g)
        ho = h.hb_outline(g)
        if rb.errors or not rb.path or not same_fill(rb.path, ho, 1e-6)[0]:
            ctx.inconclusive("oracle disagreement t2ref-bytes/HarfBuzz on composed glyph %d (%s)" % (g, rb.errors[:2]))
            return
    wanted = [gnames[g] for g in composed]
    diag = _Diag(data0, data0)
    for variant in range(3):
        opts = subset.Options()
        opts.retain_gids = variant != 1
        opts.desubroutinize = variant == 2
        opts.hinting = variant != 2
        opts.notdef_outline = True
        opts.glyph_names = True
        opts.layout_features = ["*"]
        opts.name_IDs = ["*"]
        opts.recalc_timestamp = False
        label = "seac:subset"
        ok = False
        for quiet in (True, False):            # plain run first, then monitored (see _apply)
            font = TTFont(io.BytesIO(data0), recalcTimestamp=False, recalcBBoxes=False)

            def run():
                sub = subset.Subsetter(opts)
                sub.populate(glyphs=list(wanted))
                sub.subset(font)
                return corpus.save_bytes(font)
            if quiet:
                with hooks.quiet():
                    ok, data1 = _try(ctx, "subset", run)
                if not ok:
                    break
            else:
                try:
                    run()
                except Exception:
                    ctx.note("monitored-run-raised")
        if not ok:
            continue
        order1 = TTFont(io.BytesIO(data1), lazy=True).getGlyphOrder()
        pairs = [(g, order1.index(gnames[g])) for g in composed if gnames[g] in order1]
        if len(pairs) != len(composed):
            ctx.judged()
            ctx.violation({"kind": "render", "op": label, "oracle": "glyph-order", "field": "glyph-missing"},
                          "%s: requested glyphs missing from the subset font" % label, {"wanted": wanted, "after": order1[:40]})
        r0, r1 = Renderer(data0), Renderer(data1)
        d2 = _Diag(data0, data1)
        render_compare(ctx, label, r0, r1, [(a, b, gnames[a]) for a, b in pairs], mode="fill" if variant == 2 else "topology",
                       witness=lambda lab: {"options": {"retain_gids": opts.retain_gids, "desubroutinize": opts.desubroutinize,
                                                          "hinting": opts.hinting}, "requested": wanted}, diag=d2)
        _compare_bytes(ctx, label, data0, data1, "topology", None, d2, pairs=pairs)
        b0, b1 = bare_widths(data0), bare_widths(data1)
        if b0 and b1:
            for a, b in pairs:
                ctx.judged()
                if b0.get(a) is not None and b1.get(b) != b0.get(a):
                    ctx.violation(dict({"kind": "render", "op": label, "oracle": "freetype", "field": "width" if b1.get(b) is not None else "rejected"}, **d2(a, b)),
                                  "%s: FreeType reads width %r for %s, %r before" % (label, b1.get(b), gnames[a], b0.get(a)), {"glyph": gnames[a]})
        _cur["keys"].add("seac|subset|v%d|%s" % (variant, "subr" if case["part"] % 2 else "flat"))
    # the other rewrites that keep the CFF dialect (CFF2 has no accent composition)
    for op in ("desubroutinize", "remove_hints", "remove_unused_subroutines"):
        res = _apply(ctx, data0, op)
        if res is None:
            continue
        data1, mode = res
        _compare_fonts(ctx, "seac:" + op, data0, data1, mode, rnd)
        _cur["keys"].add("seac|%s" % op)
    ctx.sample = {"case": case["id"], "composed_glyphs": wanted, "forms": "4-operand, width+4, width-on-hstem+4",
                  "subroutinised": bool(case["part"] % 2)}


def drv_bias(case, rnd, ctx):
    """Fonts whose subroutine INDEX sizes sit at / around the bias boundaries, before or after pruning."""
    from vmon.gen import c12_prog as GP, c12_font as GF
    cff2 = case["dialect"] != "cff"
    gu = None if case["gu"] < 0 else case["gu"]
    lu = None if case["lu"] < 0 else case["lu"]
    progs, local, glob = GP.gen_bias_font(rnd, cff2, case["g"], case["l"], gu, lu)
    refs = []
    for p in progs:
        r = _ref(p, cff2, False, lsubrs=local, gsubrs=glob)
        if isinstance(r, str) or r.errors:
            ctx.inconclusive("generator produced a malformed boundary font: %s" % (r if isinstance(r, str) else r.errors[:3]))
            return
        refs.append(r)
    names = GF.glyph_names(len(progs))
    adv = {n: (600 if cff2 else max(0, int(r.width))) for n, r in zip(names[1:], refs)}
    try:
        with ctx.lib("build-font"):
            if cff2:
                data0, names = GF.build_cff2(progs, local, glob, advances=adv)
            else:
                data0, names = GF.build_cff(progs, local, glob, private={"nominalWidthX": 500, "defaultWidthX": 333}, advances=adv)
    except LibRaised:
        return
    # the input itself, read from the bytes by the reference machine and by HarfBuzz, must be the font
    # that was generated (neither goes through fontTools' bias)
    tab = _cff_table(data0)
    if len(tab.gsubrs) != case["g"] or len(tab.privs[0]["lsubrs"]) != case["l"]:
        ctx.inconclusive("compiled INDEX sizes %d/%d differ from the requested %d/%d" % (
            len(tab.gsubrs), len(tab.privs[0]["lsubrs"]), case["g"], case["l"]))
        return
    h = Renderer(data0)
    for i, r in enumerate(refs):
        rb = tab.run(i + 1)
        if rb.path != r.path or not same_fill(r.path, h.hb_outline(i + 1), 1e-6)[0]:
            ctx.inconclusive("oracle disagreement on the generated boundary font, glyph %d" % (i + 1))
            return
    big = max(case["g"], case["l"]) > 30000
    ops = ["desubroutinize", "remove_unused_subroutines", "remove_hints", "convert"] + ([] if big else ["roundtrip"] + ([] if cff2 else ["subset"]))
    for op in ops:
        # 34k-subroutine fonts: monitored run only (load-order effects do not depend on the INDEX size and
        # are covered by the 1240-boundary fonts, which get both runs)
        res = _apply1(ctx, data0, op) if big else _apply(ctx, data0, op)
        if res is None:
            continue
        data1, mode = res
        _compare_fonts(ctx, "bias:" + op, data0, data1, mode, rnd)
        try:
            t1 = _cff_table(data1)
            ctx.note("bias.sizes-after:%s:g%d/l%d" % (op, len(t1.gsubrs), len(t1.privs[0]["lsubrs"])))
        except Exception:
            pass
        _cur["keys"].add("bias|%s|g%d/l%d|%s" % (case["dialect"], case["g"], case["l"], op))
    ctx.sample = {"case": case["id"], "global_subrs": case["g"], "local_subrs": case["l"], "used": [gu, lu], "ops": ops}


def _plain_sfnt(rel):
    data = corpus.font_bytes(rel)
    if data[:4] in (b"wOFF", b"wOF2"):
        with hooks.quiet():
            f = corpus.open_bytes(data)
            f.flavor = None
            data = corpus.save_bytes(f)
    return data


def drv_font(case, rnd, ctx):
    rel, op = case["path"], case["op"]
    try:
        with ctx.lib("load-corpus-font"):
            data0 = _plain_sfnt(rel)
    except LibRaised:
        return
    bad = _malformed_glyphs(data0)
    if bad:
        ctx.note("corpus-font-with-malformed-charstrings")
    if case.get("single"):
        res = _apply1(ctx, data0, op, report=not bad)      # large font, quick tier: monitored run only
    else:
        res = _apply(ctx, data0, op, lenient=bool(bad))
    if res is None:
        return
    data1, mode = res
    _compare_fonts(ctx, "font:" + op, data0, data1, mode, rnd)
    _cur["keys"].add("font|%s|%s" % (op, rel[-28:]))


def drv_fontcs(case, rnd, ctx):
    """Per-charstring rewrites (generalize / specialize variants) over a slice of a corpus font."""
    from fontTools.ttLib import TTFont
    from fontTools.cffLib import specializer as S
    rel = case["path"]
    data_in = _plain_sfnt(rel)
    font = TTFont(io.BytesIO(data_in), recalcTimestamp=False, recalcBBoxes=False)
    tag = "CFF2" if "CFF2" in font else "CFF "
    cff2 = tag == "CFF2"
    order = font.getGlyphOrder()
    sel = order[case["lo"]:case["hi"]]
    if not sel:
        ctx.skip("empty slice")
        return
    _cur["glyphs"] = set(sel)
    ok, _ = _try(ctx, "desubroutinize", font[tag].cff.desubroutinize)
    if not ok:
        return
    ok, data0 = _try(ctx, "save-desubroutinized", corpus.save_bytes, font)
    if not ok:
        return
    fmt = 513 if cff2 else 48
    variants = {"gen": {}, "spec": {}, "spec-topo": {}, "spec-max": {}, "spec-nogen": {}}
    css = font[tag].cff.topDictIndex[0].CharStrings
    for name in sel:
        cs = css[name]
        ok, _ = _try(ctx, "T2CharString.decompile", cs.decompile)
        if not ok:
            continue
        prog = list(cs.program)
        gnr = cs.private.getNumRegions if (cff2 and getattr(cs.private, "vstore", None) is not None) else None
        _cur["p2c_bad"] = False
        ok, cmds = _try(ctx, "programToCommands", S.programToCommands, list(prog), gnr)
        if not ok or _cur.get("p2c_bad"):
            if ok:
                ctx.note("skipped.after-programToCommands-width-split")
            continue
        ok, g = _try(ctx, "generalizeProgram", S.generalizeProgram, list(prog), gnr)
        if ok:
            variants["gen"][name] = g
            ok2, gc = _try(ctx, "programToCommands", S.programToCommands, list(g), gnr)
            if ok2 and not _cur.get("p2c_bad") and _is_general(gc):
                ok3, sc = _try(ctx, "specializeCommands", S.specializeCommands, gc, generalizeFirst=False, maxstack=fmt)
                if ok3:
                    ok4, sp = _try(ctx, "commandsToProgram", S.commandsToProgram, sc)
                    if ok4:
                        variants["spec-nogen"][name] = sp
        ok, sp = _try(ctx, "specializeProgram", S.specializeProgram, list(prog), gnr, maxstack=fmt)
        if ok:
            variants["spec"][name] = sp
        ok, sp = _try(ctx, "specializeProgram", S.specializeProgram, list(prog), gnr, preserveTopology=True, maxstack=fmt)
        if ok:
            variants["spec-topo"][name] = sp
        ok, sp = _try(ctx, "specializeProgram", S.specializeProgram, list(prog), gnr, maxstack=20 if not cff2 else 60)
        if ok:
            variants["spec-max"][name] = sp
        ctx.note("charstrings")
    gids = [i for i, n in enumerate(order) if n in _cur["glyphs"]]
    _cur["glyphs"] = None
    orig = {name: list(css[name].program) for name in sel if css[name].program is not None}
    for label, progs in variants.items():
        if not progs:
            continue
        for name in sel:
            if name in orig:
                css[name].program = list(progs.get(name, orig[name]))
        ok, data1 = _try(ctx, "save-" + label, corpus.save_bytes, font)
        if not ok:
            continue
        mode = "topology" if label in ("gen", "spec-topo") else "fill"
        _compare_fonts(ctx, "fontcs:" + label, data0, data1, mode, rnd, gids=[g for g in gids if order[g] in progs])
        _cur["keys"].add("fontcs|%s|%s|%d" % (label, rel[-20:], case["lo"]))
    ctx.sample = {"case": case["id"], "charstrings": len(sel), "variants": {k: len(v) for k, v in variants.items()}}


def drv_widths(case, rnd, ctx):
    """optimizeWidths on width populations clustered around the 1/2/5-byte operand boundaries."""
    from fontTools.cffLib.width import optimizeWidths
    for _ in range(case["n"]):
        base = rnd.choice([0, 250, 500, 600, 1000, 2048])
        k = rnd.choice([1, 2, 3, 5, 12, 40, 200])
        ws = []
        for _i in range(k):
            r = rnd.random()
            if r < 0.4:
                w = base
            elif r < 0.7:
                w = base + rnd.choice([-108, -107, 107, 108, 109, -1131, -1132, 1131, 1132, 1133])
            else:
                w = base + rnd.randint(-1500, 1500)
            ws.append(max(0, w))
        arg = ws if rnd.random() < 0.7 else {w: ws.count(w) for w in set(ws)}
        _try(ctx, "optimizeWidths", optimizeWidths, arg)


def coverage_extra(results):
    groups = {}
    for r in results:
        for k in r.get("keys", []):
            g = k.split("|")[0] if "|" in k else "(hashed)"
            groups.setdefault(g, set()).add(k)
    return {
        "nontrivial_by_rewrite": {g: len(v) for g, v in sorted(groups.items())},
        "emitted_forms_after_specialisation": sorted(k.split("|", 1)[1] for k in groups.get("spec", ()))[:120],
        "oracle_layers": ["t2ref (TN5177 machine) in every post-condition", "HarfBuzz + FreeType on fonts wrapping before/after",
                          "FreeType on the bare CFF table for charstring widths", "fontTools T2OutlineExtractor as cross-check (observed.xcheck.*)"],
    }
