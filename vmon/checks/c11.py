"""C11 — compiled feature files do what their rules say.

Workload (a): every corpus .fea file — asFea(parse(P)) must be a parse fixed point and
must compile to byte-identical tables.  Workload (b): grammar-generated feature files
(vmon/gen/c11_fea.py) compiled with feaLib onto a small fontBuilder font; HarfBuzz
shapes witness / near-miss / ordering / random glyph sequences over the PUA alphabet
with private feature tags, and the result must equal what the reference interpreter
(vmon/oracle/otlref.py) derives from the *rule-level model* the generator emitted next
to the text (the reference never sees compiled tables).  The text clauses are checked
on the generated programs too.
"""
import io
import os
import random
import re

from vmon import hooks, env, corpus
from vmon.case import exc_mech

PROPERTY = "C11"
LEVEL = "exploration"
RULE = ("a corpus case is one .fea file (distinct by file); a generated case is a batch of feature files drawn from the "
        "grammar, each compiled and shaped on 30-80 glyph sequences; a judged text is non-trivial when at least one rule "
        "fired in the reference, and distinct by (text kind, set of rule kinds that fired, lookup flags involved); a "
        "text-clause evaluation is distinct by the set of statement kinds in the program")
ASSUMPTIONS = [
    "HarfBuzz 12.1 (default shaper, LTR, PUA code points, private feature tags enabled explicitly) is the trusted shaper",
    "vmon/oracle/otlref.py implements the OpenType processing model over the generator's rule-level model; texts whose "
    "outcome would depend on shaper heuristics (ligature-component bookkeeping of marks, marks after multiple-substitution "
    "parts, one alternate lookup driven by two features, script fallback beyond DFLT) are counted as undetermined, not judged",
    "generated programs stay inside the fragment where the feature-file specification fixes the meaning (see vmon/gen/c11_fea.py)",
    "corpus files named in Tests/feaLib/builder_test.py TEST_FEATURE_FILES must parse and compile; other corpus files that "
    "feaLib rejects with FeatureLibError are negative tests and are skipped",
]
REQUIRED_MONITORS = ["Parser.parse", "Builder.build", "asFea", "LookupBuilder.build", "Builder.buildLookups_", "writer-graph", "reparse"]
CASE_TIMEOUT = 300
MANIFEST = {
    "text": "Exploration. Grammar-generated feature files (glyph classes, single/multiple/alternate/ligature, contextual and chaining with inline rules, lookup references, ignore, reverse chaining, single/pair/class-pair/cursive/mark-to-base/-ligature/-mark positioning, contextual positioning, lookup blocks, lookupflags, script/language statements, subtable breaks, useExtension, named value records and anchors) are compiled by feaLib; HarfBuzz shapes witness, near-miss, ordering and random glyph sequences and must agree with a reference interpreter that reads only the rule-level model emitted by the generator. asFea(parse(P)) is checked to be a parse fixed point that compiles to byte-identical tables on all 163 corpus .fea files and on the generated programs. Tests cannot settle this because they compare compiler output with expectations produced by the same compiler and never execute the lookups.",
    "note": "Trusted base: HarfBuzz 12.1, vmon/oracle/otlref.py, the generator's model. Texts whose result depends on shaper heuristics are not judged (counted as undetermined). Monitors on Parser.parse/parse_*, ast asFea, Builder.build/add_*, LookupBuilder.build give grammar and lookup-type coverage; Builder.buildLookups_ is checked to number lookups in source order.",
    "technique": "differential shaping against a rule-level reference interpreter; print/parse fixed point; byte comparison of recompiled tables; coverage monitors on parser, printer and builder",
    "design_ref": "DESIGN.md §4 C11",
}

SCR = {"DFLT": "Zyyy", "latn": "Latn", "cyrl": "Cyrl", "grek": "Grek"}

MAKE_TT_FONT_GLYPHS = """
    .notdef space slash fraction semicolon period comma ampersand
    quotedblleft quotedblright quoteleft quoteright
    zero one two three four five six seven eight nine
    zero.oldstyle one.oldstyle two.oldstyle three.oldstyle
    four.oldstyle five.oldstyle six.oldstyle seven.oldstyle
    eight.oldstyle nine.oldstyle onequarter onehalf threequarters
    onesuperior twosuperior threesuperior ordfeminine ordmasculine
    A B C D E F G H I J K L M N O P Q R S T U V W X Y Z
    a b c d e f g h i j k l m n o p q r s t u v w x y z
    A.sc B.sc C.sc D.sc E.sc F.sc G.sc H.sc I.sc J.sc K.sc L.sc M.sc
    N.sc O.sc P.sc Q.sc R.sc S.sc T.sc U.sc V.sc W.sc X.sc Y.sc Z.sc
    A.alt1 A.alt2 A.alt3 B.alt1 B.alt2 B.alt3 C.alt1 C.alt2 C.alt3
    a.alt1 a.alt2 a.alt3 a.end b.alt c.mid d.alt d.mid
    e.begin e.mid e.end m.begin n.end s.end z.end
    Eng Eng.alt1 Eng.alt2 Eng.alt3
    A.swash B.swash C.swash D.swash E.swash F.swash G.swash H.swash
    I.swash J.swash K.swash L.swash M.swash N.swash O.swash P.swash
    Q.swash R.swash S.swash T.swash U.swash V.swash W.swash X.swash
    Y.swash Z.swash
    f_l c_h c_k c_s c_t f_f f_f_i f_f_l f_i o_f_f_i s_t f_i.begin
    a_n_d T_h T_h.swash germandbls ydieresis yacute breve
    grave acute dieresis macron circumflex cedilla umlaut ogonek caron
    damma hamza sukun kasratan lam_meem_jeem noon.final noon.initial
    by feature lookup sub table uni0327 uni0328 e.fina
    idotbelow idotless iogonek acutecomb brevecomb ogonekcomb dotbelowcomb
""".split() + ["cid{:05d}".format(c) for c in range(800, 1001 + 1)]
VARFONT_AXES = [("wght", 200, 200, 1000, "Weight"), ("wdth", 100, 100, 200, "Width")]

_S = {}


# ---------------------------------------------------------------- monitors
def setup():
    from fontTools.feaLib import parser as P, ast as A, builder as Bd
    from fontTools.otlLib import builder as OB

    hooks.attach(P.Parser, "parse", name="Parser.parse")
    for name in sorted(vars(P.Parser)):
        if name.startswith("parse_") and callable(vars(P.Parser)[name]) and not isinstance(vars(P.Parser)[name], (staticmethod, classmethod)):
            hooks.attach(P.Parser, name, name="parse:" + name.strip("_")[6:])

    def post_asfea(st, a, kw, res, exc):
        hooks.count("asFea")

    for cname, cls in sorted(vars(A).items()):
        if isinstance(cls, type) and "asFea" in vars(cls):
            hooks.attach(cls, "asFea", post=post_asfea, name="asFea:" + cname)
    hooks.counters.setdefault("asFea", 0)

    hooks.attach(Bd.Builder, "build", name="Builder.build")
    for name in sorted(vars(Bd.Builder)):
        if name.startswith(("add_", "set_", "start_")) and callable(vars(Bd.Builder)[name]) and not isinstance(vars(Bd.Builder)[name], staticmethod):
            hooks.attach(Bd.Builder, name, name="Builder." + name)

    def post_buildlookups(st, a, kw, res, exc):
        if exc is not None:
            return
        self, tag = a[0], a[1]
        mine = [l for l in self.lookups_ if l.table == tag and l.lookup_index is not None]
        idx = [l.lookup_index for l in mine]
        if idx != sorted(idx) or len(set(idx)) != len(idx):
            hooks.report({"kind": "monitor", "where": "Builder.buildLookups_", "what": "lookup indices not in source order"},
                         "buildLookups_(%s): lookup_index sequence %r is not increasing in creation order" % (tag, idx[:40]),
                         {"tag": tag, "indices": idx[:100]})
        hooks.events.append(("lookups", tag, [(type(l).__name__, l.lookup_index, _loc(l.location)) for l in mine][:60]))

    hooks.attach(Bd.Builder, "buildLookups_", post=post_buildlookups, name="Builder.buildLookups_")

    def mk_post(cname):
        def post(st, a, kw, res, exc):
            hooks.count("LookupBuilder.build")
            if exc is None and res is not None:
                try:
                    n = len(res.SubTable)
                except Exception:
                    n = -1
                hooks.events.append(("built", cname, n, getattr(res, "LookupType", None), getattr(res, "LookupFlag", None)))
        return post

    hooks.counters.setdefault("LookupBuilder.build", 0)
    for cname, cls in sorted(vars(OB).items()):
        if isinstance(cls, type) and issubclass(cls, OB.LookupBuilder) and "build" in vars(cls) and cname != "AnySubstBuilder":
            hooks.attach(cls, "build", post=mk_post(cname), name="build:" + cname)
    # every feature compile is also a serialisation: the C06 writer monitors (offset/graph
    # integrity of the packed bytes, independent re-parse of GSUB/GPOS) run here too
    from vmon.checks import c06

    c06.attach_writer_monitors()
    _S["base"] = _base_font()


def _loc(loc):
    try:
        return "%s:%s" % (loc.line, loc.column)
    except Exception:
        return str(loc)


def _base_font():
    from fontTools.fontBuilder import FontBuilder
    from fontTools.pens.ttGlyphPen import TTGlyphPen
    from vmon.gen import c11_fea as G

    names = G.ORDER
    fb = FontBuilder(1000, isTTF=True)
    fb.setupGlyphOrder(names)
    fb.setupCharacterMap({corpus.PUA + i: n for i, n in enumerate(names)})
    pen = TTGlyphPen(None)
    pen.moveTo((0, 0))
    pen.lineTo((100, 0))
    pen.lineTo((100, 100))
    pen.closePath()
    g = pen.glyph()
    fb.setupGlyf({n: g for n in names})
    fb.setupHorizontalMetrics({n: (G.ADVANCES[n], 0) for n in names})
    fb.setupHorizontalHeader(ascent=800, descent=-200)
    fb.setupNameTable({"familyName": "T", "styleName": "R"})
    fb.setupOS2()
    fb.setupPost()
    b = io.BytesIO()
    fb.save(b)
    return b.getvalue()


# ---------------------------------------------------------------- cases
def _test_feature_files():
    try:
        with open(os.path.join(env.TESTS, "feaLib", "builder_test.py")) as f:
            src = f.read()
        m = re.search(r'TEST_FEATURE_FILES = """(.*?)"""', src, re.S)
        return sorted(m.group(1).split())
    except Exception:
        return []


FIXED = ["order", "feature-order-vs-lookup-order", "two-lookups-one-glyph", "script-resets-lookupflag", "vertical-values", "format2-contexts", "mixed-brackets", "variable-scalars", "device-boundaries", "reject:device-out-of-range", "known:inline-lig-prefix", "known:ignore-multi-marked", "known:contourpoint-zero", "pair-subtables", "marks", "chain-positions",
         "ligature-longest", "flags"]


def cases(tier, seed):
    T = tier == "thorough"
    cs = []
    must = set(_test_feature_files())
    for rel in corpus.inventory()["other"]["fea"]:
        base = os.path.basename(rel)[:-4]
        cs.append({"id": "fea:" + rel, "kind": "corpus", "path": rel, "seed": seed,
                   "must": rel.startswith("feaLib/data/") and base in must})
    for name in FIXED:
        cs.append({"id": "gen:" + name, "kind": "fixed", "name": name, "seed": seed})
    for k in range(24 if T else 4):
        cs.append({"id": "gen:var:%d" % k, "kind": "var", "n": 20 if T else 8, "seed": seed})
    nb, per = (320, 20) if T else (36, 8)
    for k in range(nb):
        level = 1 if k % 6 == 0 else 2 if k % 6 == 1 else 3
        cs.append({"id": "gen:l%d:%d" % (level, k), "kind": "gen", "level": level, "n": per, "seed": seed,
                   "nrandom": 16 if T else 10})
    return cs


# ---------------------------------------------------------------- helpers
def _tables(font):
    out = {}
    for t in sorted(font.keys()):
        if t == "GlyphOrder":
            continue
        try:
            out[t] = font.getTableData(t)
        except Exception as e:  # a table that cannot be compiled on this skeleton font
            out[t] = "uncompilable:%s" % type(e).__name__
    return out


def _first_diff(a, b):
    la, lb = a.split("\n"), b.split("\n")
    for i, (x, y) in enumerate(zip(la, lb)):
        if x != y:
            return i, x, y
    return min(len(la), len(lb)), (la[len(lb):] or [""])[0], (lb[len(la):] or [""])[0]


def _stmt_word(line):
    m = re.match(r"\s*([A-Za-z_@#}]+)", line or "")
    w = m.group(1) if m else "?"
    return "@class" if w.startswith("@") else w


_LOSABLE = ["contourpoint", "lookupflag", "useExtension", "subtable", "ignore", "enum", "device", "exclude_dflt",
            "required", "RightToLeft", "IgnoreBaseGlyphs", "IgnoreLigatures", "IgnoreMarks", "MarkAttachmentType", "UseMarkFilteringSet",
            "NULL", "script", "language", "languagesystem", "lookup", "markClass", "cursive", "base", "ligature", "ligComponent", "mark",
            "from", "by", "rsub", "anchor"]


def _lost(src, printed):
    """Keywords (and the ' mark) that occur less often in asFea(parse(P)) than in P."""
    strip = lambda t: re.sub(r"#[^\n]*", "", t)
    a, b = strip(src), strip(printed)
    out = []
    # a context-free reverse substitution is legitimately printed without the mark
    norsub = lambda t: "\n".join(l for l in t.split("\n") if not re.match(r"\s*(rsub|reversesub)\b", l))
    if norsub(a).count("'") > norsub(b).count("'"):
        out.append("'")
    ta, tb = re.findall(r"[A-Za-z_]+", a), re.findall(r"[A-Za-z_]+", b)
    alias = {"reversesub": "rsub", "substitute": "sub", "position": "pos", "enumerate": "enum"}
    ta, tb = [alias.get(x, x) for x in ta], [alias.get(x, x) for x in tb]
    for k in _LOSABLE:
        if ta.count(k) > tb.count(k):
            out.append(k)
    return out


def text_clauses(ctx, source, make_font, glyphmap, filename=None, must=True, label="gen"):
    """asFea(parse(P)) is a parse fixed point and compiles to identical tables."""
    from fontTools.feaLib.parser import Parser
    from fontTools.feaLib.builder import addOpenTypeFeatures, addOpenTypeFeaturesFromString
    from fontTools.feaLib.error import FeatureLibError

    incdir = os.path.dirname(filename) if filename else None

    def parse(src, first=False):
        if first and filename:
            return Parser(filename, glyphmap).parse()
        return Parser(io.StringIO(src), glyphmap, includeDir=incdir).parse()

    try:
        doc = parse(source, first=True)
    except FeatureLibError as e:
        if must:
            ctx.violation(exc_mech("parse", e, clause=label), "parse of a valid feature file raised %s: %s" % (type(e).__name__, str(e)[:200]))
            return None
        ctx.skip("corpus file rejected by the parser (negative test)")
        return None
    except Exception as e:
        ctx.violation(exc_mech("parse", e, clause=label), "parse raised %s: %s" % (type(e).__name__, str(e)[:200]))
        return None
    try:
        t1 = doc.asFea()
    except Exception as e:
        ctx.violation(exc_mech("asFea", e, clause=label), "asFea raised %s: %s" % (type(e).__name__, str(e)[:200]))
        return None
    try:
        t2 = parse(t1).asFea()
    except Exception as e:
        ctx.judged()
        ctx.violation({"kind": "asFea-reparse", "type": type(e).__name__, "clause": label},
                      "asFea(parse(P)) cannot be parsed again: %s: %s" % (type(e).__name__, str(e)[:300]),
                      {"asFea": t1[:3000], "file": filename})
        return None
    ctx.judged()
    fp_stmt = None
    if t1 != t2:
        i, x, y = _first_diff(t1, t2)
        fp_stmt = _stmt_word(x)
        ctx.violation({"kind": "asFea-fixed-point", "statement": _stmt_word(x), "clause": label},
                      "asFea(parse(asFea(parse(P)))) != asFea(parse(P)) at line %d: %r vs %r" % (i + 1, x[:200], y[:200]),
                      {"file": filename, "line": i + 1, "first": x[:500], "second": y[:500]})
    # identical tables
    f1 = make_font()
    try:
        if filename:
            addOpenTypeFeatures(f1, filename)
        else:
            addOpenTypeFeaturesFromString(f1, source)
    except FeatureLibError as e:
        if must:
            ctx.violation(exc_mech("compile", e, clause=label), "compiling a valid feature file raised %s: %s" % (type(e).__name__, str(e)[:300]),
                          {"file": filename, "fea": None if filename else source[:4000]})
        else:
            ctx.skip("corpus file rejected by the builder (negative test)")
        return t1
    except Exception as e:
        ctx.violation(exc_mech("compile", e, clause=label), "compile raised %s: %s" % (type(e).__name__, str(e)[:300]),
                      {"file": filename, "fea": None if filename else source[:4000]})
        return t1
    a = _tables(f1)
    f2 = make_font()
    try:
        addOpenTypeFeaturesFromString(f2, t1, filename=filename)
    except Exception as e:
        ctx.judged()
        ctx.violation({"kind": "asFea-recompile-raised", "type": type(e).__name__, "clause": label},
                      "asFea(parse(P)) does not compile although P does: %s: %s" % (type(e).__name__, str(e)[:300]),
                      {"file": filename, "asFea": t1[:4000]})
        return t1
    b = _tables(f2)
    ctx.judged()
    diff = sorted(t for t in set(a) | set(b) if a.get(t) != b.get(t))
    if diff:
        src_text = source if not filename else open(filename, encoding="utf-8", errors="replace").read()
        ctx.violation({"kind": "asFea-recompile-differs", "tables": diff, "clause": label, "fixed_point_broken_at": fp_stmt,
                       "lost": _lost(src_text, t1)},
                      "compile(asFea(parse(P))) differs from compile(P) in %s" % diff,
                      {"file": filename, "tables": diff, "asFea": t1[:4000], "fea": None if filename else source[:4000]})
    return t1


# ---------------------------------------------------------------- corpus
def run_corpus(case, ctx):
    from fontTools.ttLib import TTFont
    from fontTools.fontBuilder import addFvar

    path = corpus.abspath(case["path"])
    from fontTools.ttLib import newTable

    variable = os.path.basename(path).startswith("variable_")

    def make_font():
        font = TTFont()
        font.setGlyphOrder(list(MAKE_TT_FONT_GLYPHS))
        if variable:
            font["name"] = newTable("name")
            addFvar(font, VARFONT_AXES, [])
            del font["name"]
        return font

    gm = make_font().getReverseGlyphMap()
    n0 = len(ctx.violations)
    t1 = text_clauses(ctx, path, make_font, gm, filename=path, must=case["must"], label="corpus")
    if t1 is None and not ctx.violations[n0:] and not case["must"]:
        # not parseable against the test glyph set: try without a glyph set (fixed point only)
        from fontTools.feaLib.parser import Parser
        from fontTools.feaLib.error import FeatureLibError
        try:
            doc = Parser(path, ()).parse()
            t1 = doc.asFea()
            t2 = Parser(io.StringIO(t1), (), includeDir=os.path.dirname(path)).parse().asFea()
        except FeatureLibError:
            return
        ctx.judged()
        if t1 != t2:
            i, x, y = _first_diff(t1, t2)
            ctx.violation({"kind": "asFea-fixed-point", "statement": _stmt_word(x), "clause": "corpus"},
                          "asFea fixed point broken at line %d: %r vs %r" % (i + 1, x[:200], y[:200]), {"file": path})
    if t1 is not None:
        ctx.nontrivial("corpus:" + os.path.basename(path))
        kinds = sorted({_stmt_word(l) for l in t1.split("\n")} - {"?", "}", "#"})
        for k in kinds:
            ctx.note("corpus-stmt:" + k)
        ctx.sample = {"file": case["path"], "asFea_lines": t1.count("\n") + 1, "statement_words": kinds[:40]}


# ---------------------------------------------------------------- generated programs
def _merged_inline_ligatures(model):
    """Variant model: all inline ligature lookups of one contextual lookup section share one
    lookup (diagnosis of the known 'find_chainable_ligature_subst' merge)."""
    import copy

    m = copy.deepcopy(model)
    changed = False
    for lk in m["GSUB"]:
        if lk["kind"] != "chain":
            continue
        for st in lk["subtables"]:
            shared = None
            for r in st:
                for refs in r["lookups"]:
                    for k, ref in enumerate(refs or ()):
                        if isinstance(ref, dict) and ref["kind"] == "subst" and any(len(i) > 1 for s in ref["subtables"] for i, o in s):
                            if shared is None:
                                shared = ref
                            else:
                                shared["subtables"][0].extend(x for s in ref["subtables"] for x in s)
                                refs[k] = shared
                                changed = True
    for lk in m["GSUB"] + m["GPOS"]:
        _strip(lk)
    return m if changed else None


def _strip(lk):
    for k in [k for k in lk if k.startswith("_")]:
        del lk[k]
    if lk["kind"] in ("chain", "cpos"):
        for st in lk["subtables"]:
            for r in st:
                for k in [k for k in r if k.startswith("_")]:
                    del r[k]
                for refs in r["lookups"]:
                    for ref in refs or ():
                        if isinstance(ref, dict):
                            _strip(ref)
    if lk["kind"] == "rchain":
        for r in lk["rules"]:
            for k in [k for k in r if k.startswith("_")]:
                del r[k]


def _font_for(prog):
    """The skeleton font of a program: the common base font, plus fvar for variable programs."""
    from fontTools.ttLib import TTFont

    f = TTFont(io.BytesIO(_S["base"]))
    if prog.get("axis"):
        from fontTools.fontBuilder import addFvar

        tag, lo, df, hi = prog["axis"]
        addFvar(f, [(tag, lo, df, hi, "Weight")], [])
    return f


def _hb_shape(h, order, seq, feats, sc, lg):
    cps = [corpus.PUA + order.index(n) for n in seq]
    lang = "dflt" if lg == "dflt" else "x-hbot" + lg.strip().lower()
    return [(order[gid], xa, ya, xo, yo) for gid, cl, xa, ya, xo, yo in h.shape(cps, dict(feats), script=SCR[sc], language=lang)]


def judge_program(ctx, prog, texts, label, sample=False):
    from fontTools.ttLib import TTFont
    from fontTools.feaLib.builder import addOpenTypeFeaturesFromString
    from vmon.gen import c11_fea as G
    from vmon.oracle import otlref
    from vmon.oracle.hbft import HB

    fea, model = prog["fea"], prog["model"]
    for k in prog.get("kinds", ()):
        ctx.note("stmt:" + k)
    font = _font_for(prog)
    del hooks.events[:]
    try:
        addOpenTypeFeaturesFromString(font, fea)
        b = io.BytesIO()
        font.save(b)
    except Exception as e:
        ctx.judged()
        ctx.violation(exc_mech("compile", e, clause=label), "compiling a generated feature file raised %s: %s" % (type(e).__name__, str(e)[:300]),
                      {"fea": fea[:6000]})
        return
    decoded = set()
    for e in hooks.events:
        if e[0] == "walked":
            decoded.update(tuple(d) for d in e[2].get("_devices", ()))
            for k_, v_ in e[2].items():
                if k_[:5] in ("GSUB5", "GSUB6", "GPOS7", "GPOS8") or k_.startswith(("Device", "VariationIndex")):
                    ctx.note("written " + k_, v_)
    if "devices_sure" in prog:
        # the Device tables struct-decoded from the written bytes are those of the feature file
        ctx.judged()
        want_all = {tuple(d[:3]) + (tuple(d[3]),) for d in prog["devices_all"]}
        want_sure = {tuple(d[:3]) + (tuple(d[3]),) for d in prog["devices_sure"]}
        if not (want_sure <= decoded <= want_all):
            ctx.violation({"kind": "device-decode", "what": "Device tables in the written GPOS differ from the <device> statements"},
                          "decoded Device tables %s; the feature file declares %s" % (sorted(decoded - want_all)[:4], sorted(want_sure - decoded)[:4]),
                          {"fea": fea[:6000], "unexpected": sorted(decoded - want_all)[:10], "missing": sorted(want_sure - decoded)[:10]})
        elif want_sure:
            ctx.nontrivial("device-decode|" + "+".join(sorted({"fmt%d" % d[2] for d in decoded})))
            for d in decoded:
                ctx.note("Device table decoded: format %d" % d[2])
    built = [e for e in hooks.events if e[0] == "built"]
    for e in built:
        ctx.note("lookup-built:%s/type%s" % (e[1], e[3]))
        if e[2] and e[2] > 1:
            ctx.note("lookup-subtables>1:%s" % e[1])
    data = b.getvalue()
    hbs = {None: HB(data)}
    order = G.ORDER
    try:
        ref = otlref.Interp(model)
    except otlref.Undetermined as e:
        ctx.skip("undetermined-model:" + str(e))
        return
    bad = 0
    first = None
    for text in texts:
        kind, seq, feats, sc, lg = text[:5]
        loc = text[5] if len(text) > 5 else None
        ppem = text[6] if len(text) > 6 else None
        try:
            want = ref.shape(seq, feats, sc, lg, loc=loc, ppem=ppem)
        except otlref.Undetermined as e:
            ctx.skip("undetermined:" + str(e))
            continue
        trace = list(ref.trace)
        if loc not in hbs:
            hbs[loc] = HB(data, variations={prog["axis"][0]: loc})
        h = hbs[loc]
        h.font.ppem = (ppem, ppem) if ppem else (0, 0)
        got = _hb_shape(h, order, seq, feats, sc, lg)
        if ppem:
            ctx.note("text shaped at a ppem (Device tables act)")
        if loc is not None:
            ctx.note("text shaped at a non-default axis location")
        ctx.judged()
        fired = sorted({t[3] for t in trace})
        if want == got:
            if fired:
                flags = set()
                for t in trace:
                    fl = (model[t[0]][t[1]].get("flag") or {}) if t[1] >= 0 else {}
                    flags.update(k for k in ("ignore", "mat", "mfs") if fl.get(k))
                ctx.nontrivial("%s|%s|%s" % (kind, "+".join(fired), "+".join(sorted(flags))))
                for k in fired:
                    ctx.note("rule-fired:" + k)
                if first is None:
                    first = {"text": seq, "features": feats, "script": sc, "lang": lg, "shaped": got, "rules_fired": trace[:8]}
            else:
                ctx.note("text-without-rule:" + kind)
            continue
        bad += 1
        if bad > 2:
            continue
        diff = "glyphs" if [g[0] for g in want] != [g[0] for g in got] else \
            "advance" if [g[1:3] for g in want] != [g[1:3] for g in got] else "offset"
        cause = "unexplained"
        alt = _merged_inline_ligatures(model)
        if alt is not None:
            try:
                if otlref.Interp(alt).shape(seq, feats, sc, lg, loc=loc, ppem=ppem) == got:
                    cause = "inline-ligature-lookups-merged"
            except otlref.Undetermined:
                pass
        mech = {"kind": "shape-mismatch", "diff": diff, "cause": cause}
        if ppem:
            mech["at"] = "ppem"
        if cause == "unexplained":
            mech["fired"] = "+".join(fired) or "none"
        ctx.violation(mech, "HarfBuzz on the compiled font disagrees with the rules for text %s (features %s, %s/%s): rules say %s, font gives %s"
                      % (" ".join(seq), feats, sc, lg.strip(), want, got),
                      {"fea": fea[:8000], "text": seq, "features": feats, "script": sc, "lang": lg, "location": loc, "ppem": ppem, "reference": want,
                       "harfbuzz": got, "rules_fired_in_reference": trace[:20]})
    # text clauses
    gm = font.getReverseGlyphMap()
    n0 = ctx.evals
    text_clauses(ctx, fea, lambda: _font_for(prog), gm, must=True, label=label)
    if ctx.evals > n0:
        ctx.nontrivial("text-clauses|" + "+".join(sorted(k for k in prog.get("kinds", ()) if not k.startswith(("named", "nested", "range"))))[:400])
    if sample and ctx.sample is None:
        lk = [e for e in hooks.events if e[0] == "lookups"]
        ctx.sample = {"fea": fea[:1800], "lookups_built": [(e[1], e[3], e[2]) for e in built][:20],
                      "lookup_index_vs_source": lk[:2], "texts": len(texts), "example": first}


def run_gen(case, ctx):
    from vmon.gen import c11_fea as G

    rnd = random.Random("%s/%s" % (case["id"], case["seed"]))
    for k in range(case["n"]):
        prnd = random.Random(rnd.getrandbits(64))
        try:
            prog = G.generate(prnd, case["level"])
        except RecursionError:
            ctx.skip("generator gave up")
            continue
        texts = G.make_texts(prnd, prog, n_random=case["nrandom"])
        judge_program(ctx, prog, texts, "gen", sample=(k == 0))


def run_var(case, ctx):
    from vmon.gen import c11_fea as G

    rnd = random.Random("%s/%s" % (case["id"], case["seed"]))
    for k in range(case["n"]):
        prnd = random.Random(rnd.getrandbits(64))
        prog, texts = G.generate_variable(prnd)
        judge_program(ctx, prog, texts, "gen", sample=(k == 0))


def run_reject(case, ctx):
    """Feature files outside the language (documented limits) must be rejected, not compiled."""
    from fontTools.feaLib.builder import addOpenTypeFeaturesFromString
    from vmon.gen import c11_fixed as F

    for label, fea in F.rejected(case["name"]):
        font = _font_for({})
        ctx.judged()
        try:
            addOpenTypeFeaturesFromString(font, fea)
            b = io.BytesIO()
            font.save(b)
        except Exception as e:
            ctx.note("rejected %s with %s" % (label.split(":")[0], type(e).__name__))
            ctx.nontrivial("reject|" + label[:30])
            continue
        ctx.violation({"kind": "invalid-program-accepted", "what": label.split(":")[0]},
                      "a feature file with %s compiled instead of being rejected" % label, {"fea": fea})
    ctx.sample = {"rejected_programs": [l for l, f in F.rejected(case["name"])]}


def run_fixed(case, ctx):
    from vmon.gen import c11_fixed as F

    if case["name"].startswith("reject:"):
        return run_reject(case, ctx)

    prog, texts = F.program(case["name"])
    judge_program(ctx, prog, texts, "fixed", sample=True)


def run_case(case, ctx):
    if case["kind"] == "corpus":
        run_corpus(case, ctx)
    elif case["kind"] == "fixed":
        run_fixed(case, ctx)
    elif case["kind"] == "var":
        run_var(case, ctx)
    else:
        run_gen(case, ctx)
