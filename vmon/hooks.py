"""Attach monitors to the library's real functions (DESIGN §2.1).

`attach(owner, "name", pre=…, post=…)` replaces the attribute on its owner and
rebinds every module-level alias of the old function object (``from m import f``),
counting evaluations.  Monitors never alter arguments or results and re-raise the
function's own exceptions unchanged.  A monitor reports by calling
``hooks.report(...)`` (collected by the worker) – it never raises into the library.
"""
import functools
import sys
import threading
from collections import Counter

counters = Counter()          # "monitor name" -> evaluations
events = []                   # free-form event log of the current case
_reports = []                 # violations reported by monitors during the current case
_attached = []                # (owner, name, original) for detach()
_guard = threading.local()


def reset_case():
    del events[:]
    del _reports[:]


def report(mech, what, witness=None):
    """Called by a monitor when its oracle refutes the property."""
    _reports.append({"mech": mech, "what": what, "witness": witness})


def take_reports():
    out = list(_reports)
    del _reports[:]
    return out


def count(name, n=1):
    counters[name] += n


def reentrant():
    return getattr(_guard, "depth", 0) > 0


class quiet:
    """Context: calls made by a monitor itself are not monitored again."""

    def __enter__(self):
        _guard.depth = getattr(_guard, "depth", 0) + 1

    def __exit__(self, *a):
        _guard.depth -= 1


def _resolve(owner, path):
    parts = path.split(".")
    for p in parts[:-1]:
        owner = getattr(owner, p)
    return owner, parts[-1]


monitor_errors = []           # exceptions raised by monitors themselves (harness bugs)


def _monitor_failed(mname):
    import traceback

    if len(monitor_errors) < 20:
        monitor_errors.append("%s: %s" % (mname, traceback.format_exc()[-1500:]))


def take_monitor_errors():
    out = list(monitor_errors)
    del monitor_errors[:]
    return out


def attach(owner, path, pre=None, post=None, name=None, bind=True):
    """pre(args, kwargs) -> state ; post(state, args, kwargs, result, exc).

    With bind=True (default) `args` is the tuple of *all* parameters in signature
    order with defaults applied and `kwargs` is empty, so monitors can index
    positionally however the library spelled the call."""
    owner, attr = _resolve(owner, path)
    raw = owner.__dict__.get(attr) if hasattr(owner, "__dict__") else None
    if raw is None:
        raw = getattr(owner, attr)
    kind = None
    orig = raw
    if isinstance(raw, staticmethod):
        kind, orig = staticmethod, raw.__func__
    elif isinstance(raw, classmethod):
        kind, orig = classmethod, raw.__func__
    mname = name or "%s.%s" % (getattr(owner, "__name__", owner), attr)
    counters.setdefault(mname, 0)
    sig = None
    if bind:
        import inspect

        try:
            sig = inspect.signature(orig)
            if any(p.kind in (p.VAR_POSITIONAL, p.VAR_KEYWORD) for p in sig.parameters.values()):
                sig = None
        except (TypeError, ValueError):
            sig = None

    def norm(args, kwargs):
        if sig is None:
            return args, kwargs
        try:
            b = sig.bind(*args, **kwargs)
        except TypeError:
            return args, kwargs
        b.apply_defaults()
        return tuple(b.arguments.values()), {}

    @functools.wraps(orig)
    def wrapper(*args, **kwargs):
        if reentrant():
            return orig(*args, **kwargs)
        state = None
        na, nk = norm(args, kwargs)
        if pre is not None:
            with quiet():
                try:
                    state = pre(na, nk)
                except Exception:
                    _monitor_failed(mname)
        try:
            result = orig(*args, **kwargs)
        except BaseException as e:
            counters[mname] += 1
            if post is not None and isinstance(e, Exception):
                with quiet():
                    try:
                        post(state, na, nk, None, e)
                    except Exception:
                        _monitor_failed(mname)
            raise
        counters[mname] += 1
        if post is not None:
            with quiet():
                try:
                    post(state, na, nk, result, None)
                except Exception:
                    _monitor_failed(mname)
        return result

    wrapper.__vmon_orig__ = orig
    new = kind(wrapper) if kind else wrapper
    setattr(owner, attr, new)
    _attached.append((owner, attr, raw))
    # rebind module-level aliases of the old function object
    if kind is None:
        for mod in list(sys.modules.values()):
            d = getattr(mod, "__dict__", None)
            if not d or mod is owner:
                continue
            for k, v in list(d.items()):
                if v is orig:
                    d[k] = wrapper
                    _attached.append((mod, k, orig))
    return mname


def detach_all():
    while _attached:
        owner, attr, raw = _attached.pop()
        try:
            setattr(owner, attr, raw)
        except Exception:
            pass
