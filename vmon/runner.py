"""Parent side: enumerate cases, shard them over worker subprocesses, aggregate
three-valued verdicts, classify violations against known_findings.json, write
evidence and replay files (DESIGN §2.4–2.6)."""
import concurrent.futures as cf
import importlib
import json
import os
import re
import shutil
import subprocess
import sys
import tempfile
import time
from collections import Counter

from . import env
from .case import short_hash

KNOWN_PATH = os.path.join(env.VERIF, "known_findings.json")


def load_known(prop):
    try:
        with open(KNOWN_PATH) as f:
            data = json.load(f)
    except FileNotFoundError:
        return []
    return [k for k in data.get("findings", []) if k.get("property") == prop]


def mech_matches(match, mech):
    for k, want in match.items():
        got = mech.get(k)
        if isinstance(want, dict) and "re" in want:
            if got is None or not re.search(want["re"], str(got)):
                return False
        elif isinstance(want, list):
            if got not in want:
                return False
        elif got != want:
            return False
    return True


def classify(known, mech):
    for k in known:
        if k.get("status") == "known" and mech_matches(k["match"], mech):
            return k
    return None


def _run_shard(check, cases, scratch, idx, timeout, extra_env):
    cpath = os.path.join(scratch, "cases-%d.json" % idx)
    opath = os.path.join(scratch, "out-%d.jsonl" % idx)
    lpath = os.path.join(scratch, "log-%d.txt" % idx)
    with open(cpath, "w") as f:
        json.dump(cases, f)
    e = env.child_env(extra_env)
    e["VMON_SCRATCH"] = os.path.join(scratch, "w%d" % idx)
    os.makedirs(e["VMON_SCRATCH"], exist_ok=True)
    timed_out = False
    # backstop behind the worker's own per-case watchdog: the worker writes a line when a case starts and when it
    # ends, so an output file that has not grown for longer than the longest case budget (+ slack) means the
    # in-flight case escaped its watchdog; the worker is killed, that case is inconclusive, the rest is re-run
    stall = max([int(c.get("timeout", 0) or 0) for c in cases] + [int(os.environ.get("VMON_CASE_TIMEOUT_MAX", "0") or 0), 120]) + 150
    with open(lpath, "w") as lf:
        p = subprocess.Popen([env.PYTHON, "-B", "-m", "vmon.worker", check, cpath, opath],
                             cwd=env.VERIF, env=e, stdout=lf, stderr=subprocess.STDOUT)
        t_start = time.time()
        while True:
            try:
                p.wait(timeout=5)
                break
            except subprocess.TimeoutExpired:
                pass
            now = time.time()
            try:
                last = os.path.getmtime(opath)
            except OSError:
                last = t_start
            if now - t_start > timeout or now - max(last, t_start) > stall:
                timed_out = True
                p.kill()
                p.wait()
                break
    results, summary, fatal, started = [], None, None, None
    if os.path.exists(opath):
        with open(opath) as f:
            for line in f:
                try:
                    r = json.loads(line)
                except ValueError:
                    continue
                if "fatal" in r:
                    fatal = r
                elif r.get("summary"):
                    summary = r
                elif "start" in r:
                    started = r["start"]
                else:
                    results.append(r)
                    started = None
    done = {r["id"] for r in results}
    crashed = None
    if summary is None and fatal is None:
        # worker died or was killed: the case in flight is inconclusive, the rest unrun
        tail = ""
        try:
            with open(lpath) as f:
                tail = f.read()[-1500:]
        except OSError:
            pass
        crashed = {"in_flight": started, "timed_out": timed_out, "log_tail": tail}
    shutil.rmtree(e["VMON_SCRATCH"], ignore_errors=True)
    remaining = [c for c in cases if c["id"] not in done and c["id"] != started]
    return results, summary, fatal, crashed, remaining, started


def run(check, tier, seed, jobs=None, replay=None, only=None, extra_env=None, keep_going=True):
    t0 = time.time()
    env.bootstrap()
    mod = importlib.import_module("vmon.checks." + check.lower())
    prop = mod.PROPERTY
    known = load_known(prop)
    jobs = jobs or int(os.environ.get("VMON_JOBS", "16"))
    cases = mod.cases(tier, seed)
    ids = set()
    for c in cases:
        assert c["id"] not in ids, "duplicate case id %r" % c["id"]
        ids.add(c["id"])
    if only:
        cases = [c for c in cases if re.search(only, c["id"])]
    scratch = tempfile.mkdtemp(prefix="vmon-%s-" % prop)
    case_to = int(getattr(mod, "CASE_TIMEOUT", 120))
    os.environ["VMON_CASE_TIMEOUT_MAX"] = str(case_to)
    chunk = int(getattr(mod, "CHUNK", 0)) or max(1, -(-len(cases) // (jobs * 3)))
    # interleave so that heavy neighbours spread over shards
    nshards = max(1, -(-len(cases) // chunk))
    shards = [cases[i::nshards] for i in range(nshards)]
    results, summaries, fatals, crashes = [], [], [], []
    try:
        pending = list(enumerate(shards))
        idx_next = len(shards)
        with cf.ThreadPoolExecutor(max_workers=jobs) as ex:
            futs = {}
            for i, sh in pending:
                to = sum(int(c.get("timeout", case_to)) for c in sh) + 120
                futs[ex.submit(_run_shard, check, sh, scratch, i, to, extra_env)] = sh
            while futs:
                donef, _ = cf.wait(list(futs), return_when=cf.FIRST_COMPLETED)
                for fu in donef:
                    sh = futs.pop(fu)
                    res, summ, fatal, crashed, remaining, started = fu.result()
                    results.extend(res)
                    if summ:
                        summaries.append(summ)
                    if fatal:
                        fatals.append(fatal)
                    if crashed:
                        crashes.append(crashed)
                        if started is not None:
                            results.append({"id": started, "evals": 0, "keys": [], "violations": [],
                                            "skips": {}, "inconc": ["worker died or timed out: " + crashed["log_tail"][-300:]],
                                            "obs": {}, "sample": None})
                        if remaining and not fatal:
                            to = sum(int(c.get("timeout", case_to)) for c in remaining) + 120
                            futs[ex.submit(_run_shard, check, remaining, scratch, idx_next, to, extra_env)] = remaining
                            idx_next += 1
    finally:
        shutil.rmtree(scratch, ignore_errors=True)

    # ---- aggregate --------------------------------------------------------
    evaluations = sum(r["evals"] for r in results)
    keys = set()
    skips, obs = Counter(), Counter()
    inconc_cases = []
    for r in results:
        keys.update(r["keys"])
        skips.update(r["skips"])
        obs.update(r["obs"])
        if r["inconc"]:
            inconc_cases.append({"id": r["id"], "why": [w[:400] for w in r["inconc"]][:3]})
    monitors = Counter()
    sites_hit, sites_never, sites_lost = set(), None, set()
    audit_counts = Counter()
    for s in summaries:
        monitors.update(s["monitors"])
        sites_hit.update(s["sites"]["hit"])
        nv = set(s["sites"]["never_reached"])
        sites_never = nv if sites_never is None else (sites_never & nv)
        sites_lost.update(s["sites"]["lost"])
        audit_counts.update(s.get("audit", {}))
    sites_never = (sites_never or set()) - sites_hit
    case_by_id = {c["id"]: c for c in cases}

    new_viol, known_hits = [], {}
    for r in results:
        for v in r["violations"]:
            k = classify(known, v["mech"])
            if k:
                known_hits.setdefault(k["id"], {"finding": k, "n": 0, "example": r["id"]})["n"] += 1
            else:
                new_viol.append((r["id"], v))

    lines = []
    replay_paths = []
    os.makedirs(os.path.join(env.VERIF, "replay"), exist_ok=True)
    seen_mech = set()
    for cid, v in new_viol:
        mh = short_hash(v["mech"])
        if mh in seen_mech:
            continue
        seen_mech.add(mh)
        path = os.path.join(env.VERIF, "replay", "%s-%s.json" % (prop, short_hash([cid, v["mech"]])))
        with open(path, "w") as f:
            json.dump({"property": prop, "check": check, "tier": tier, "seed": seed,
                       "case": case_by_id.get(cid), "violation": v}, f, indent=1, default=repr)
        replay_paths.append(path)
        lines.append("VIOLATION property=%s replay=%s" % (prop, path))
        lines.append("  what: %s | mech: %s" % (v["what"][:300], json.dumps(v["mech"], default=repr)[:300]))
        if len(replay_paths) >= 25:
            break
    for kid, h in sorted(known_hits.items()):
        lines.append("KNOWN-FINDING: property=%s %s [%s; seen %d times, e.g. case %s]"
                     % (prop, h["finding"]["what"], kid, h["n"], h["example"]))

    # ---- verdict ------------------------------------------------------------
    reasons = []
    if fatals:
        reasons.append("worker fatal: %s" % fatals[0])
    required = list(getattr(mod, "REQUIRED_MONITORS", []))
    zero = [m for m in required if monitors.get(m, 0) == 0]
    if zero:
        reasons.append("deciding monitors never evaluated: %s" % zero)
    req_sites = [s for s in getattr(mod, "REQUIRED_SITES", []) if s not in sites_hit]
    if req_sites:
        reasons.append("required sites never reached: %s" % req_sites)
    if evaluations == 0:
        reasons.append("no oracle evaluation reached a verdict")
    if len(keys) < 2:
        reasons.append("fewer than 2 distinct non-trivial cases")
    nres = max(1, len(cases))
    if len(inconc_cases) > 0.25 * nres:
        reasons.append("%d of %d cases inconclusive" % (len(inconc_cases), nres))
    missing = len(cases) - len({r["id"] for r in results})
    if missing > 0.1 * nres:
        reasons.append("%d cases never ran" % missing)

    if new_viol:
        verdict, rc = "violated", 1
    elif reasons:
        verdict, rc = "inconclusive", 2
    else:
        verdict, rc = "held", 0

    wall = time.time() - t0
    samples = [r["sample"] for r in results if r.get("sample")][:6]
    if not samples:
        samples = [{"case": c} for c in cases[:3]]
    coverage = {
        "evaluations": evaluations,
        "distinct_nontrivial": len(keys),
        "rule": mod.RULE,
        "samples": samples,
        "exhaustive": bool(getattr(mod, "EXHAUSTIVE", {}).get(tier, False)) if isinstance(getattr(mod, "EXHAUSTIVE", None), dict) else False,
        "cases": len(cases),
        "cases_run": len(results),
        "cases_inconclusive": len(inconc_cases),
        "inconclusive_examples": inconc_cases[:5],
        "preconditions_not_met": dict(skips.most_common(40)),
        "observed": dict(sorted(obs.items())),
        "monitor_evaluations": dict(sorted(monitors.items())),
        "sites": {"hit": sorted(sites_hit), "never_reached": sorted(sites_never), "lost": sorted(sites_lost)},
        "audit_events": dict(audit_counts),
        "known_findings_matched": {k: h["n"] for k, h in known_hits.items()},
        "verdict": verdict,
        "inconclusive_reasons": reasons,
        "worker_crashes": len(crashes),
    }
    if hasattr(mod, "coverage_extra"):
        try:
            coverage.update(mod.coverage_extra(results))
        except Exception as e:  # pragma: no cover
            coverage["coverage_extra_error"] = repr(e)
    evidence = {
        "property_id": prop,
        "tier": tier,
        "seed": int(seed),
        "level": mod.LEVEL,
        "coverage": coverage,
        "assumptions": list(getattr(mod, "ASSUMPTIONS", [])),
        "wall_s": round(wall, 2),
        "violations": len(new_viol),
    }
    if not only and not os.environ.get("VMON_NO_EVIDENCE"):
        os.makedirs(os.path.join(env.VERIF, "evidence"), exist_ok=True)
        with open(os.path.join(env.VERIF, "evidence", "%s.json" % prop), "w") as f:
            json.dump(evidence, f, indent=1, sort_keys=True, default=repr)
            f.write("\n")

    for ln in lines:
        print(ln)
    for ic in inconc_cases[:3]:
        print("  inconclusive case %s: %s" % (ic["id"][:80], " | ".join(ic["why"])[-700:].replace("\n", " // ")))
    if verdict == "inconclusive":
        print("INCONCLUSIVE property=%s reason=%s" % (prop, "; ".join(reasons)))
    print("%s property=%s tier=%s seed=%s cases=%d evaluations=%d distinct_nontrivial=%d "
          "inconclusive_cases=%d known=%d new_violations=%d wall=%.1fs"
          % (verdict.upper(), prop, tier, seed, len(cases), evaluations, len(keys),
             len(inconc_cases), len(known_hits), len(new_viol), wall))
    return rc


def replay(check, path):
    """Re-execute exactly one recorded case in this process, with full reporting."""
    env.bootstrap()
    from . import hooks
    from .case import Ctx, LibRaised

    mod = importlib.import_module("vmon.checks." + check.lower())
    with open(path) as f:
        rec = json.load(f)
    os.environ.setdefault("VMON_SCRATCH", tempfile.mkdtemp(prefix="vmon-replay-"))
    if hasattr(mod, "setup"):
        mod.setup()
    case = rec["case"]
    ctx = Ctx(case)
    try:
        mod.run_case(case, ctx)
    except LibRaised:
        pass
    for rep in hooks.take_reports():
        ctx.violations.append(rep)
    known = load_known(mod.PROPERTY)
    rc = 0
    for v in ctx.violations:
        k = classify(known, v["mech"])
        if k:
            print("KNOWN-FINDING: property=%s %s" % (mod.PROPERTY, k["what"]))
        else:
            rc = 1
            print("VIOLATION property=%s replay=%s" % (mod.PROPERTY, path))
            print(json.dumps(v, indent=1, default=repr)[:6000])
    if not ctx.violations:
        print("replay: no violation reproduced (evals=%d, inconclusive=%s)" % (ctx.evals, ctx.inconc))
    shutil.rmtree(os.environ["VMON_SCRATCH"], ignore_errors=True)
    return rc
