"""Run parts of the repository's own test suite *inside a monitored worker* so that the
4834 tests become an additional, very diverse workload for monitors whose
preconditions are crisp (DESIGN §2.1).  Test outcomes are not judged here (that is
the baseline's job); only what the attached monitors report is."""
import io
import os
import sys
from contextlib import redirect_stderr, redirect_stdout

from . import env


def run_pytest(paths, ctx, extra=()):
    import pytest

    old = os.getcwd()
    os.chdir(env.REPO)
    out = io.StringIO()

    class Counter:
        passed = failed = 0

        def pytest_runtest_logreport(self, report):
            if report.when == "call":
                if report.passed:
                    self.passed += 1
                elif report.failed:
                    self.failed += 1

    c = Counter()
    try:
        with redirect_stdout(out), redirect_stderr(out):
            rc = pytest.main(["-q", "-p", "no:cacheprovider", "-x" if False else "-q", "--no-header", "-W", "ignore",
                              "-o", "addopts=", *extra, *[os.path.join("Tests", p) for p in paths]], plugins=[c])
    finally:
        os.chdir(old)
    ctx.note("suite_tests_passed", c.passed)
    ctx.note("suite_tests_failed", c.failed)
    return c.passed, c.failed, out.getvalue()[-2000:]
