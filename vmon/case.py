"""Per-case context handed to a check's run_case(): collects oracle evaluations,
non-trivial keys, violations, skips (precondition not met) and inconclusive notes."""
import hashlib
import json
import os
import traceback
from collections import Counter

from . import env


def short_hash(obj):
    if not isinstance(obj, (bytes, bytearray)):
        obj = json.dumps(obj, sort_keys=True, default=repr).encode()
    return hashlib.sha256(obj).hexdigest()[:16]


def lib_frame(exc):
    """Innermost traceback frame that lies inside the library under test."""
    tb = traceback.extract_tb(exc.__traceback__)
    lib = os.path.realpath(env.LIB)
    best = None
    for fr in tb:
        fn = os.path.realpath(fr.filename)
        if fn.startswith(lib):
            best = (os.path.relpath(fn, lib), fr.name, fr.lineno)
    return best


def exc_mech(op, exc, **extra):
    fr = lib_frame(exc)
    mech = {
        "kind": "exception",
        "op": op,
        "type": type(exc).__name__,
        "file": fr[0] if fr else None,
        "func": fr[1] if fr else None,
    }
    mech.update(extra)
    return mech


class LibRaised(Exception):
    """Internal: the library raised inside ctx.lib(); already recorded."""


class Ctx:
    def __init__(self, case):
        self.case = case
        self.evals = 0
        self.keys = set()
        self.violations = []
        self.skips = Counter()
        self.inconc = []
        self.obs = Counter()
        self.sample = None

    # -- verdict pieces -------------------------------------------------
    def judged(self, n=1):
        self.evals += n

    def nontrivial(self, key):
        self.keys.add(key if isinstance(key, str) and len(key) <= 40 else short_hash(key))

    def violation(self, mech, what, witness=None):
        self.violations.append({"mech": mech, "what": what, "witness": witness})

    def skip(self, reason, n=1):
        self.skips[reason] += n

    def inconclusive(self, reason):
        self.inconc.append(reason)

    def note(self, key, n=1):
        self.obs[key] += n

    # -- library calls --------------------------------------------------
    def lib(self, op, expected=(), skip_reason=None, **extra):
        return _LibCall(self, op, expected, skip_reason, extra)

    def result(self):
        return {
            "id": self.case.get("id"),
            "evals": self.evals,
            "keys": sorted(self.keys),
            "violations": self.violations,
            "skips": dict(self.skips),
            "inconc": self.inconc,
            "obs": dict(self.obs),
            "sample": self.sample,
        }


class _LibCall:
    """`with ctx.lib("save"):` — an exception raised by the library on a valid input
    is a violation (witness = traceback); exceptions of a documented rejection type
    (`expected`) are 'precondition not met'.  Either way LibRaised propagates so the
    caller can abandon the case."""

    def __init__(self, ctx, op, expected, skip_reason, extra):
        self.ctx, self.op, self.expected, self.skip_reason, self.extra = ctx, op, expected, skip_reason, extra

    def __enter__(self):
        return self

    def __exit__(self, et, ev, tb):
        if et is None:
            return False
        if issubclass(et, (LibRaised, KeyboardInterrupt, SystemExit, CaseTimeout)):
            return False
        if self.expected and issubclass(et, self.expected):
            self.ctx.skip(self.skip_reason or "rejected:%s:%s" % (self.op, et.__name__))
            raise LibRaised() from ev
        if issubclass(et, MemoryError):
            self.ctx.inconclusive("MemoryError in %s" % self.op)
            raise LibRaised() from ev
        self.ctx.violation(
            exc_mech(self.op, ev, **self.extra),
            "%s raised %s: %s" % (self.op, et.__name__, str(ev)[:200]),
            {"traceback": traceback.format_exception(et, ev, tb)[-12:]},
        )
        raise LibRaised() from ev


class CaseTimeout(BaseException):
    pass
