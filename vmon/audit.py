"""sys.addaudithook recorder (DESIGN §2.3).

An audit hook cannot be removed, so it is installed once per worker and switched
on/off with `recording`.  Events kept: exec (code-object summary), compile (source
prefix), open (path, mode), os.* mutations, subprocess/os.system, import is ignored
(too noisy) unless asked.
"""
import sys

recording = False
log = []
_installed = False
counts = {}

_KEEP = {
    "exec", "compile", "open", "os.mkdir", "os.rename", "os.remove", "os.rmdir",
    "os.system", "subprocess.Popen", "os.exec", "os.posix_spawn", "os.symlink",
    "os.link", "os.truncate", "os.chmod", "shutil.rmtree", "shutil.move",
    "shutil.copyfile", "os.putenv", "os.unsetenv", "os.startfile",
}


def _code_tokens(code, depth=0):
    toks = list(code.co_names)
    for c in code.co_consts:
        if isinstance(c, (str, bytes)):
            toks.append(c if isinstance(c, str) else c.decode("latin-1"))
        elif hasattr(c, "co_names") and depth < 3:
            toks.extend(_code_tokens(c, depth + 1))
    return toks


def _hook(event, args):
    if not recording or event not in _KEEP:
        return
    counts[event] = counts.get(event, 0) + 1
    try:
        if event == "exec":
            code = args[0]
            log.append(("exec", code.co_filename, _code_tokens(code)))
        elif event == "compile":
            src = args[0]
            if isinstance(src, bytes):
                src = src.decode("latin-1")
            log.append(("compile", src[:4000] if isinstance(src, str) else type(src).__name__, args[1]))
        elif event == "open":
            log.append(("open", args[0], args[1], args[2]))
        else:
            log.append((event,) + tuple(a for a in args))
    except Exception as e:  # never let the monitor disturb the program
        log.append(("hook-error", event, repr(e)))


def install():
    global _installed
    if not _installed:
        sys.addaudithook(_hook)
        _installed = True


class record:
    def __enter__(self):
        global recording
        install()
        del log[:]
        recording = True
        return log

    def __exit__(self, *a):
        global recording
        recording = False
        return False
