"""Bootstrap shared by the parent CLI and every worker.

The test-suite interpreter (/venv) carries a *copied* install of fontTools; the
checks must observe /repo's working tree instead, so the library directory is put
first on sys.path and the import location is asserted (DESIGN §1.1).
"""
import os
import sys

VERIF = os.path.dirname(os.path.dirname(os.path.abspath(__file__)))
REPO = os.environ.get("VMON_REPO", "/repo")
LIB = os.environ.get("VMON_LIB", os.path.join(REPO, "Lib"))
TESTS = os.path.join(REPO, "Tests")
DEPS = os.path.join(VERIF, ".deps")
PYTHON = "/venv/bin/python"
GUARD = "FONTTOOLS_VERIF"
EPOCH = "1700000000"


class WrongImport(Exception):
    pass


def child_env(extra=None):
    env = dict(os.environ)
    env["PYTHONPATH"] = os.pathsep.join([LIB, VERIF, DEPS])
    env["PYTHONDONTWRITEBYTECODE"] = "1"
    env.setdefault("PYTHONHASHSEED", "0")
    env["SOURCE_DATE_EPOCH"] = EPOCH
    env[GUARD] = "1"
    env["VMON_LIB"] = LIB
    env["VMON_REPO"] = REPO
    if extra:
        env.update(extra)
    return env


def bootstrap():
    """Make `import fontTools` resolve to the working tree; pin the clock."""
    sys.dont_write_bytecode = True
    for p in (DEPS, VERIF, LIB):
        if p in sys.path:
            sys.path.remove(p)
        sys.path.insert(0, p)
    if os.environ.get("VMON_EPOCH_OVERRIDE") != "1":     # a check that sweeps the epoch passes its own value
        os.environ["SOURCE_DATE_EPOCH"] = EPOCH
    os.environ[GUARD] = "1"
    import logging

    logging.disable(logging.CRITICAL)
    import fontTools

    loc = os.path.realpath(fontTools.__file__)
    if not loc.startswith(os.path.realpath(LIB) + os.sep):
        raise WrongImport("fontTools imported from %s, expected under %s" % (loc, LIB))
    return loc


def ensure_deps():
    """Install icontract (pure Python) from the offline wheelhouse into .deps."""
    if os.path.isdir(os.path.join(DEPS, "icontract")):
        return True
    import subprocess

    os.makedirs(DEPS, exist_ok=True)
    r = subprocess.run(
        [PYTHON, "-m", "pip", "install", "-q", "--no-index", "--find-links",
         "/opt/veriftools/wheels", "--target", DEPS, "icontract"],
        stdout=subprocess.PIPE, stderr=subprocess.STDOUT, text=True,
    )
    return r.returncode == 0
