"""sys.monitoring based site-coverage probes and failpoints (DESIGN §2.2).

* Site probes: LINE events local to chosen code objects; the callback returns
  DISABLE after the first hit so the cost is negligible.  Sites are located by
  function + source pattern (not by line number).
* Failpoints: raise an injected exception at the N-th distinct (code, line)
  reached inside a dynamic extent – no source edit needed.
"""
import inspect
import re
import sys

mon = sys.monitoring
TOOL_SITES = 3
TOOL_FAIL = 4

_sites = {}       # (code, line) -> site name
site_hits = {}    # site name -> bool
sites_lost = []   # names whose pattern no longer matches
_sites_on = False


def _line_cb(code, line):
    name = _sites.get((code, line))
    if name is not None:
        site_hits[name] = True
    return mon.DISABLE


def _ensure_sites_tool():
    global _sites_on
    if not _sites_on:
        mon.use_tool_id(TOOL_SITES, "vmon-sites")
        mon.register_callback(TOOL_SITES, mon.events.LINE, _line_cb)
        _sites_on = True


def add_site(name, func, pattern=None):
    """Register a decision site: first source line of `func` matching regex
    `pattern` (or the function's first line)."""
    _ensure_sites_tool()
    func = getattr(func, "__vmon_orig__", func)
    func = getattr(func, "__func__", func)
    code = func.__code__
    try:
        lines, start = inspect.getsourcelines(func)
    except (OSError, TypeError):
        sites_lost.append(name)
        return False
    target = None
    execlines = {l for _, _, l in code.co_lines() if l}
    # nested code objects (comprehensions, closures) carry their own lines
    codes = [code] + [c for c in code.co_consts if hasattr(c, "co_lines")]
    for i, text in enumerate(lines):
        ln = start + i
        if pattern is None:
            if ln in execlines and not text.lstrip().startswith(("def ", "@")):
                target = (code, ln)
                break
        elif re.search(pattern, text):
            for c in codes:
                if ln in {l for _, _, l in c.co_lines() if l}:
                    target = (c, ln)
                    break
            if target:
                break
    if target is None:
        sites_lost.append(name)
        return False
    _sites[target] = name
    site_hits.setdefault(name, False)
    mon.set_local_events(TOOL_SITES, target[0], mon.events.LINE)
    return True


def site_summary():
    return {
        "registered": len(site_hits),
        "hit": sorted(k for k, v in site_hits.items() if v),
        "never_reached": sorted(k for k, v in site_hits.items() if not v),
        "lost": sorted(sites_lost),
    }


class Injected(Exception):
    """Raised by a failpoint."""


class FailpointSession:
    """Enumerate and inject failures on lines executed in a dynamic extent.

    usage:
        fp = FailpointSession(path_filter)   # which code objects are eligible
        with fp.record():  run()             # pass 1: collect ordered distinct points
        for k in range(len(fp.points)):
            with fp.inject(k): run()         # raises Injected at point k
    """

    def __init__(self, path_filter, stop_event=None):
        self.path_filter = path_filter
        self.points = []
        self._seen = set()
        self._target = None
        self.fired = False
        self.active = True

    def _cb_record(self, code, line):
        if not self.active:
            return None
        if not self.path_filter(code.co_filename):
            return mon.DISABLE
        key = (code.co_filename, code.co_qualname, line)
        if key not in self._seen:
            self._seen.add(key)
            self.points.append(key)
        return None

    def _cb_inject(self, code, line):
        if not self.active or self.fired:
            return None
        if (code.co_filename, code.co_qualname, line) == self._target:
            self.fired = True
            raise Injected("%s:%s:%d" % self._target)
        return None

    class _Ctx:
        def __init__(self, sess, cb):
            self.sess, self.cb = sess, cb

        def __enter__(self):
            mon.use_tool_id(TOOL_FAIL, "vmon-fail")
            mon.register_callback(TOOL_FAIL, mon.events.LINE, self.cb)
            mon.set_events(TOOL_FAIL, mon.events.LINE)
            mon.restart_events()
            self.sess.active = True
            return self.sess

        def __exit__(self, *a):
            mon.set_events(TOOL_FAIL, 0)
            mon.register_callback(TOOL_FAIL, mon.events.LINE, None)
            mon.free_tool_id(TOOL_FAIL)
            return False

    def record(self):
        self.points, self._seen = [], set()
        return self._Ctx(self, self._cb_record)

    def inject(self, k):
        self._target = self.points[k]
        self.fired = False
        return self._Ctx(self, self._cb_inject)
