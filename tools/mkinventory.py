#!/venv/bin/python -B
"""Build corpus_inventory.json from /repo/Tests on the current tree (run on the
baseline tree; the result is committed).  Uses 16 subprocesses."""
import concurrent.futures as cf
import glob
import io
import json
import os
import sys

HERE = os.path.dirname(os.path.dirname(os.path.abspath(__file__)))
sys.path.insert(0, HERE)
from vmon import env


def probe(rel):
    env.bootstrap()
    from fontTools.ttLib import TTFont, TTCollection

    path = os.path.join(env.TESTS, rel)
    recs = []
    try:
        if rel.endswith(".ttc"):
            n = len(TTCollection(path).fonts)
            members = list(range(n))
        else:
            members = [None]
        for m in members:
            if rel.endswith(".ttx"):
                f = TTFont(recalcTimestamp=False)
                f.importXML(path)
                b = io.BytesIO()
                f.save(b)
                b.seek(0)
                f = TTFont(b)
                size = len(b.getvalue())
            else:
                f = TTFont(path, fontNumber=m) if m is not None else TTFont(path)
                size = os.path.getsize(path)
            tags = sorted(f.keys())
            rec = {
                "path": rel, "kind": "ttx" if rel.endswith(".ttx") else "bin", "member": m,
                "ext": os.path.splitext(rel)[1].lstrip("."), "flavor": f.flavor,
                "sfntVersion": f.sfntVersion if isinstance(f.sfntVersion, str) else f.sfntVersion.decode("latin-1"),
                "tables": [t for t in tags if t != "GlyphOrder"],
                "numGlyphs": len(f.getGlyphOrder()) if ("maxp" in f or "CFF " in f or "CFF2" in f or "glyf" in f) else 0,
                "size": size,
                "head": "head" in f,
                "outlines": "glyf" if "glyf" in f else "CFF " if "CFF " in f else "CFF2" if "CFF2" in f else None,
                "variable": "fvar" in f,
                "layout": [t for t in ("GSUB", "GPOS", "GDEF", "kern") if t in f],
                "upem": f["head"].unitsPerEm if "head" in f else None,
                "ncmap": len(f.getBestCmap() or {}) if "cmap" in f else 0,
                "axes": [(a.axisTag, a.minValue, a.defaultValue, a.maxValue) for a in f["fvar"].axes] if "fvar" in f else [],
            }
            # a font is 'complete' when the independent engines can be expected to open it
            rec["complete"] = all(t in f for t in ("head", "maxp", "hhea", "hmtx", "cmap")) and rec["outlines"] is not None
            recs.append(rec)
    except Exception as e:
        return [{"path": rel, "error": "%s: %s" % (type(e).__name__, str(e)[:200])}]
    return recs


def main():
    os.chdir(env.TESTS)
    rels = []
    for pat in ("**/*.ttf", "**/*.otf", "**/*.ttc", "**/*.woff", "**/*.woff2", "**/*.ttx"):
        rels.extend(glob.glob(pat, recursive=True))
    rels = sorted(set(rels))
    fonts, failed = [], []
    with cf.ProcessPoolExecutor(16) as ex:
        for recs in ex.map(probe, rels, chunksize=4):
            for r in recs:
                (failed if "error" in r else fonts).append(r)
    other = {
        "fea": sorted(glob.glob("**/*.fea", recursive=True)),
        "designspace": sorted(glob.glob("**/*.designspace", recursive=True)),
        "glif": sorted(glob.glob("**/*.glif", recursive=True)),
        "plist": sorted(glob.glob("**/*.plist", recursive=True)),
        "ufo": sorted(p for p in glob.glob("**/*.ufo", recursive=True) if os.path.isdir(p)),
    }
    out = {"fonts": fonts, "not_fonts": failed, "other": other}
    with open(os.path.join(HERE, "corpus_inventory.json"), "w") as f:
        json.dump(out, f, indent=0, sort_keys=True)
        f.write("\n")
    print("fonts:", len(fonts), "unloadable:", len(failed), {k: len(v) for k, v in other.items()})


if __name__ == "__main__":
    main()
