#!/venv/bin/python -B
"""setup_cmd: offline; installs icontract into .deps from the local wheelhouse and
creates the output directories.  Nothing is compiled: the library is pure Python and
workers import it straight from /repo/Lib."""
import os
import sys

HERE = os.path.dirname(os.path.dirname(os.path.abspath(__file__)))
sys.path.insert(0, HERE)
from vmon import env

for d in ("evidence", "replay"):
    os.makedirs(os.path.join(HERE, d), exist_ok=True)
ok = env.ensure_deps()
print("deps:", "ok" if ok else "icontract unavailable (checks fall back to in-house monitors)")
loc = env.bootstrap()
print("fontTools from", loc)
