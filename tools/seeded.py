#!/venv/bin/python -B
"""Run the registered checks against the seeded breaking changes kept under
/verif/seeded/<id>/ (patch.diff + meta.json).  Each patch is applied to a scratch
copy of /repo/Lib (removed afterwards) and the check of the property it breaks is run
with VMON_LIB pointing at the copy: quick tier first, thorough if quick stays silent.

  tools/seeded.py [id ...] [--jobs N] [--tier quick|thorough|both]

Writes seeded/<id>/result.json and prints the catch matrix.  (Equivalent to
`git -C /repo apply patch.diff; ./check CNN; git -C /repo checkout -- .` but does not
touch /repo, so several can be examined without disturbing other work.)"""
import argparse
import json
import os
import shutil
import subprocess
import sys
import tempfile
import time

HERE = os.path.dirname(os.path.dirname(os.path.abspath(__file__)))
REPO = "/repo"


def run_one(sid, tier, jobs):
    d = os.path.join(HERE, "seeded", sid)
    meta = json.load(open(os.path.join(d, "meta.json")))
    prop = meta["property"]
    scratch = tempfile.mkdtemp(prefix="vmon-seeded-%s-" % sid)
    try:
        # a scratch copy of the working tree's library (tracked files only matter)
        shutil.copytree(os.path.join(REPO, "Lib"), os.path.join(scratch, "Lib"), symlinks=True)
        r = subprocess.run(["patch", "-p1", "-s", "-d", scratch, "-i", os.path.join(d, "patch.diff")], capture_output=True, text=True)
        if r.returncode != 0:
            return {"id": sid, "property": prop, "error": "patch does not apply: " + (r.stderr or r.stdout)[-300:]}
        changed = subprocess.run(["diff", "-rq", os.path.join(REPO, "Lib"), os.path.join(scratch, "Lib")], capture_output=True, text=True).stdout
        changed = [l for l in changed.splitlines() if "__pycache__" not in l]
        if not changed:
            return {"id": sid, "property": prop, "error": "patch applied but the library copy is unchanged"}
        out = {"id": sid, "property": prop, "needs": meta.get("needs"), "files_changed": len(changed), "runs": []}
        tiers = ["quick", "thorough"] if tier == "both" else [tier]
        for t in tiers:
            env = dict(os.environ, VMON_LIB=os.path.join(scratch, "Lib"), VMON_JOBS=str(jobs), VMON_NO_EVIDENCE="1")
            t0 = time.time()
            p = subprocess.run([os.path.join(HERE, "check"), prop, "--tier", t], cwd=HERE, env=env, capture_output=True, text=True)
            lines = [l for l in p.stdout.splitlines() if l.startswith(("VIOLATION", "  what", "HELD", "VIOLATED", "INCONCLUSIVE", "KNOWN"))]
            out["runs"].append({"tier": t, "exit": p.returncode, "wall_s": round(time.time() - t0, 1), "lines": lines[:8]})
            if p.returncode == 1:
                break
        out["caught"] = any(r["exit"] == 1 for r in out["runs"])
        out["caught_by"] = next((r["tier"] for r in out["runs"] if r["exit"] == 1), None)
        return out
    finally:
        shutil.rmtree(scratch, ignore_errors=True)


def main():
    ap = argparse.ArgumentParser()
    ap.add_argument("ids", nargs="*")
    ap.add_argument("--jobs", type=int, default=8)
    ap.add_argument("--tier", default="both")
    a = ap.parse_args()
    root = os.path.join(HERE, "seeded")
    ids = a.ids or sorted(x for x in os.listdir(root) if os.path.exists(os.path.join(root, x, "meta.json")))
    rc = 0
    for sid in ids:
        res = run_one(sid, a.tier, a.jobs)
        with open(os.path.join(root, sid, "result.json"), "w") as f:
            json.dump(res, f, indent=1)
            f.write("\n")
        status = "ERROR " + res["error"] if "error" in res else ("caught (%s)" % res["caught_by"] if res["caught"] else "MISSED")
        print("%-28s %-4s %s" % (sid, res["property"], status))
        if "error" in res or not res.get("caught"):
            rc = 1
    return rc


if __name__ == "__main__":
    sys.exit(main())
