#!/venv/bin/python -B
"""Regenerate MANIFEST.json from the check modules present under vmon/checks."""
import ast
import json
import os
import sys

HERE = os.path.dirname(os.path.dirname(os.path.abspath(__file__)))
PY = "/venv/bin/python -B"


def consts(path):
    out = {}
    tree = ast.parse(open(path).read())
    for node in tree.body:
        if isinstance(node, ast.Assign) and len(node.targets) == 1 and isinstance(node.targets[0], ast.Name):
            try:
                out[node.targets[0].id] = ast.literal_eval(node.value)
            except Exception:
                pass
    return out


def main():
    props = [json.loads(l) for l in open(os.path.join(HERE, "properties.jsonl"))]
    repo_fix = []
    checks, na = [], []
    claimed = set(open(os.path.join(HERE, "tools", "claimed.txt")).read().split())
    for p in props:
        pid = p["id"]
        path = os.path.join(HERE, "vmon", "checks", pid.lower() + ".py")
        c = consts(path) if os.path.exists(path) else {}
        if not c.get("MANIFEST") or pid not in claimed:
            na.append({"property_id": pid, "reason": c.get("NOT_CLAIMED", "check not built yet (work in progress); no claim is made")})
            continue
        m = c["MANIFEST"]
        checks.append({
            "property_id": pid,
            "quick_cmd": "%s ./check %s --tier quick" % (PY, pid),
            "thorough_cmd": "%s ./check %s --tier thorough" % (PY, pid),
            "evidence_file": "/verif/evidence/%s.json" % pid,
            "replay_cmd_template": "%s ./check %s --replay {path}" % (PY, pid),
            "engine": "vmon",
            "level_claimed": {"category": c["LEVEL"], "text": m["text"], "design_ref": m.get("design_ref", "DESIGN.md §4 " + pid)},
            "level_note": m["note"],
            "technique": m["technique"],
        })
    man = {
        "version": 1,
        "setup_cmd": "/venv/bin/python -B tools/setup.py",
        "hooks": {
            "guard": "FONTTOOLS_VERIF",
            "enable": "no source hooks are needed: monitors are attached to the library's functions by the harness at import time (vmon/hooks.py, sys.monitoring, sys.addaudithook); workers run with PYTHONPATH=/repo/Lib so the current working tree is what is observed; FONTTOOLS_VERIF=1 is exported for completeness",
            "baseline_off_cmd": "cd /repo && /venv/bin/python -m pytest -ra -q -p no:cacheprovider --timeout=900 --continue-on-collection-errors",
            "source_commits": [],
            "add_only": True,
        },
        "engines": [{
            "name": "vmon", "path": "/verif/vmon",
            "serves_properties": [c["property_id"] for c in checks],
            "kind_free_text": "runtime monitoring: post-condition monitors attached to the real fontTools functions, sys.monitoring site probes and failpoints, audit hook, independent oracles (HarfBuzz, FreeType, spec-written decoders, exact rational models), sharded seeded workloads in subprocesses",
        }],
        "checks": checks,
        "not_applicable": na,
        "notes": "Verdicts are three-valued: exit 0 held (KNOWN-FINDING lines possible), exit 1 VIOLATION, exit 2 INCONCLUSIVE (never printed as a violation). Genuine defects repaired in /repo are 'fix:' commits listed in known_findings.json as status=fixed.",
    }
    with open(os.path.join(HERE, "MANIFEST.json"), "w") as f:
        json.dump(man, f, indent=1)
        f.write("\n")
    print("MANIFEST: %d checks, %d not claimed" % (len(checks), len(na)))


if __name__ == "__main__":
    main()
