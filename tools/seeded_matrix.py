#!/usr/bin/env python3
"""Regenerate seeded/MATRIX.md (catch matrix of the seeded breaking changes) from seeded/*/{meta,confirm,result}.json
and seeded/STRENGTHENED.json (what was changed in a check because a seeded change first escaped it)."""
import json
import os

HERE = os.path.dirname(os.path.dirname(os.path.abspath(__file__)))
root = os.path.join(HERE, "seeded")
notes = json.load(open(os.path.join(root, "STRENGTHENED.json"))) if os.path.exists(os.path.join(root, "STRENGTHENED.json")) else {}
rows, tot, caught, quick = [], 0, 0, 0
for sid in sorted(os.listdir(root)):
    d = os.path.join(root, sid)
    if not os.path.exists(os.path.join(d, "meta.json")):
        continue
    meta = json.load(open(os.path.join(d, "meta.json")))
    res = json.load(open(os.path.join(d, "result.json"))) if os.path.exists(os.path.join(d, "result.json")) else {}
    conf = json.load(open(os.path.join(d, "confirm.json"))) if os.path.exists(os.path.join(d, "confirm.json")) else {}
    tot += 1
    st = "error: " + res["error"][:40] if "error" in res else (res.get("caught_by") or ("MISSED" if res else "not run"))
    caught += st in ("quick", "thorough")
    quick += st == "quick"
    rows.append("| %s | %s | %s | %s | %s |" % (sid, meta["what"].replace("|", "/"), (meta.get("needs") or "").replace("|", "/"),
                                            st, notes.get(sid, "").replace("|", "/")))
with open(os.path.join(root, "MATRIX.md"), "w") as f:
    f.write("# Seeded breaking changes: catch matrix\n\n%d changes, %d caught (%d in the quick tier).  Regenerate with tools/seeded_matrix.py after tools/seeded.py.\n\n" % (tot, caught, quick))
    f.write("| id | change | needs | caught by | check strengthened because it first escaped |\n|---|---|---|---|---|\n")
    f.write("\n".join(rows) + "\n")
by = {}
for r in rows:
    cells = [c.strip() for c in r.strip("|").split("|")]
    prop = cells[0].split("-")[0]
    b = by.setdefault(prop, [0, 0, 0, 0])
    b[0] += 1
    b[1] += cells[3] == "quick"
    b[2] += cells[3] == "thorough"
    b[3] += bool(cells[4])
lines = ["%d seeded changes are kept; %d are caught by the registered checks (%d already by the quick tier); %d first escaped and led to a widening."
         % (tot, caught, quick, sum(b[3] for b in by.values())), "",
         "| property | seeded | caught in quick | caught in thorough only | not caught | first escaped (check widened) |", "|---|---|---|---|---|---|"]
for prop in sorted(by):
    b = by[prop]
    lines.append("| %s | %d | %d | %d | %d | %d |" % (prop, b[0], b[1], b[2], b[0] - b[1] - b[2], b[3]))
dp = os.path.join(HERE, "DESIGN.md")
ds = open(dp).read()
a, z = "<!-- seeded-summary:begin -->", "<!-- seeded-summary:end -->"
if a in ds and z in ds:
    ds = ds[:ds.index(a) + len(a)] + "\n" + "\n".join(lines) + "\n" + ds[ds.index(z):]
    open(dp, "w").write(ds)
print(tot, caught, quick)
