#!/usr/bin/env python3
"""Regenerate seeded/MATRIX.md (catch matrix of the seeded breaking changes) from seeded/*/{meta,confirm,result}.json
and seeded/STRENGTHENED.json (what was changed in a check because a seeded change first escaped it)."""
import json
import os

HERE = os.path.dirname(os.path.dirname(os.path.abspath(__file__)))
root = os.path.join(HERE, "seeded")
notes = json.load(open(os.path.join(root, "STRENGTHENED.json"))) if os.path.exists(os.path.join(root, "STRENGTHENED.json")) else {}
rows, tot, caught, quick = [], 0, 0, 0
for sid in sorted(os.listdir(root)):
    d = os.path.join(root, sid)
    if not os.path.exists(os.path.join(d, "meta.json")):
        continue
    meta = json.load(open(os.path.join(d, "meta.json")))
    res = json.load(open(os.path.join(d, "result.json"))) if os.path.exists(os.path.join(d, "result.json")) else {}
    conf = json.load(open(os.path.join(d, "confirm.json"))) if os.path.exists(os.path.join(d, "confirm.json")) else {}
    tot += 1
    st = "error: " + res["error"][:40] if "error" in res else (res.get("caught_by") or ("MISSED" if res else "not run"))
    caught += st in ("quick", "thorough")
    quick += st == "quick"
    rows.append("| %s | %s | %s | %s | %s |" % (sid, meta["what"].replace("|", "/"), (meta.get("needs") or "").replace("|", "/"),
                                            st, notes.get(sid, "").replace("|", "/")))
with open(os.path.join(root, "MATRIX.md"), "w") as f:
    f.write("# Seeded breaking changes: catch matrix\n\n%d changes, %d caught (%d in the quick tier).  Regenerate with tools/seeded_matrix.py after tools/seeded.py.\n\n" % (tot, caught, quick))
    f.write("| id | change | needs | caught by | check strengthened because it first escaped |\n|---|---|---|---|---|\n")
    f.write("\n".join(rows) + "\n")
print(tot, caught, quick)
