#!/usr/bin/env python3
"""import_seeded.py PROP k slug 'what' 'needs'  — copy /tmp/seed/PROP-work/k into seeded/PROP-slug with meta.json"""
import json, os, shutil, sys
prop, k, slug, what, needs = sys.argv[1:6]
sid = "%s-%s" % (prop, slug)
d = "/verif/seeded/" + sid
os.makedirs(d, exist_ok=True)
src = os.path.join(os.environ.get("SEED_SRC", "/tmp/seed/%s-work" % prop), k)
for f in ("patch.diff", "demo.py", "notes.md"):
    shutil.copy(os.path.join(src, f), os.path.join(d, f))
json.dump({"id": sid, "property": prop, "what": what, "needs": needs,
           "source": "independent sub-agent given only the property text and a scratch worktree",
           "ran": "see confirm.json (tools/confirm_seeded.sh: demo on clean/patched worktree, full suite on patched worktree) and result.json (tools/seeded.py)"},
          open(os.path.join(d, "meta.json"), "w"), indent=1)
print(sid)
