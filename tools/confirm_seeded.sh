#!/bin/bash
# usage: confirm_seeded.sh <seeded-id>   — confirms a seeded change in a scratch worktree of /repo:
#  demo passes on the clean tree, fails with the patch; full test suite passes with the patch. Writes seeded/<id>/confirm.json
set -u
ID=$1; D=/verif/seeded/$ID; W=/tmp/confirm-$ID
git -C /repo worktree remove --force $W 2>/dev/null; rm -rf $W
git -C /repo worktree add -q --detach $W HEAD || exit 2
cd $W
clean=$(PYTHONPATH=$W/Lib /venv/bin/python -B $D/demo.py >/tmp/confirm-$ID.clean.log 2>&1; echo $?)
if ! git apply $D/patch.diff 2>/tmp/confirm-$ID.apply.log; then
  patch -p1 -i $D/patch.diff >/tmp/confirm-$ID.apply.log 2>&1 || { echo "{\"id\":\"$ID\",\"error\":\"patch does not apply\"}" > $D/confirm.json; git -C /repo worktree remove --force $W; exit 1; }
fi
patched=$(PYTHONPATH=$W/Lib /venv/bin/python -B $D/demo.py >/tmp/confirm-$ID.patched.log 2>&1; echo $?)
imp=$(PYTHONPATH=$W/Lib /venv/bin/python -B -c "import fontTools, compileall, sys; sys.exit(0 if compileall.compile_dir('$W/Lib/fontTools', quiet=1, legacy=False, force=False, workers=1) else 1)" >/dev/null 2>&1; echo $?)
find $W/Lib -name __pycache__ -prune -exec rm -rf {} + 2>/dev/null
summary=$(PYTHONPATH=$W/Lib /venv/bin/python -m pytest -q -p no:cacheprovider -n ${NPROC:-6} --timeout=900 2>&1 | tail -1)
cd /; git -C /repo worktree remove --force $W; rm -rf $W
python3 - "$ID" "$clean" "$patched" "$imp" "$summary" <<'PY'
import json,sys,re
id,clean,patched,imp,summary=sys.argv[1:6]
m=re.search(r"(\d+) passed",summary); f=re.search(r"(\d+) failed",summary); e=re.search(r"(\d+) error",summary)
out={"id":id,"demo_exit_clean_tree":int(clean),"demo_exit_patched_tree":int(patched),"compiles":imp=="0",
     "suite_summary_patched":summary.strip(),"suite_passed":int(m.group(1)) if m else None,"suite_failed":int(f.group(1)) if f else 0,"suite_errors":int(e.group(1)) if e else 0}
out["confirmed"]= out["demo_exit_clean_tree"]==0 and out["demo_exit_patched_tree"]!=0 and out["compiles"] and out["suite_failed"]==0 and out["suite_errors"]==0 and (out["suite_passed"] or 0)>=4834
json.dump(out,open("/verif/seeded/%s/confirm.json"%id,"w"),indent=1)
print(json.dumps(out))
PY
