# witness: GDEF version 1.3 whose ItemVarStore offset is NULL (allowed by the spec) makes the subsetter crash
import sys, io
sys.path.insert(0, "/repo/Lib")
from fontTools.ttLib import TTFont
from fontTools import subset
src = TTFont(); src.importXML("/repo/Tests/varLib/data/master_ttx_interpolatable_ttf/TestFamily-Master1.ttx")
b = io.BytesIO(); src.save(b)
f = TTFont(io.BytesIO(b.getvalue()))
print("GDEF version %#x VarStore=%r" % (f["GDEF"].table.Version, f["GDEF"].table.VarStore))
s = subset.Subsetter(subset.Options()); s.populate(unicodes=[0x41, 0x61])
s.subset(f)   # AttributeError: 'NoneType' object has no attribute 'subset_varidxes'
