# C05 witnesses: PYTHONPATH=/repo/Lib /venv/bin/python w_c05.py
import io
from fontTools.fontBuilder import FontBuilder
from fontTools.pens.ttGlyphPen import TTGlyphPen
from fontTools.pens.recordingPen import DecomposingRecordingPen
from fontTools.ttLib import TTFont
from fontTools.ttLib.tables._g_l_y_f import Glyph, GlyphComponent, SCALED_COMPONENT_OFFSET
import uharfbuzz as hb
def sq(x0,y0,x1,y1):
    p=TTGlyphPen(None); p.moveTo((x0,y0)); p.lineTo((x0,y1)); p.lineTo((x1,y1)); p.lineTo((x1,y0)); p.closePath(); return p.glyph()
def comp(*cs):
    g=Glyph(); g.numberOfContours=-1; g.components=list(cs); return g
def C(name,x=None,y=None,tr=None,flags=0,anchor=None):
    c=GlyphComponent(); c.glyphName=name; c.flags=flags
    if anchor: c.firstPt,c.secondPt=anchor
    else: c.x,c.y=x,y
    if tr: c.transform=tr
    return c
order=['.notdef','base','scaledoff','shifted','anchored']
fb=FontBuilder(1000,isTTF=True); fb.setupGlyphOrder(order); fb.setupCharacterMap({})
glyphs={'.notdef':TTGlyphPen(None).glyph(),'base':sq(100,0,300,200),
 'scaledoff':comp(C('base',100,50,[[0.5,0],[0,0.5]],SCALED_COMPONENT_OFFSET)),
 'shifted':comp(C('base',0,0)),
 'anchored':comp(C('base',0,0),C('base',anchor=(2,0)))}
fb.setupGlyf(glyphs)
m={n:(500,getattr(fb.font['glyf'][n],'xMin',0) or 0) for n in order}
m['shifted']=(500,40)            # lsb 40, xMin 100
fb.setupHorizontalMetrics(m); fb.setupHorizontalHeader(ascent=800,descent=-200)
fb.setupNameTable({'familyName':'W','styleName':'R'}); fb.setupOS2(); fb.setupPost()
b=io.BytesIO(); fb.save(b); data=b.getvalue()
f=TTFont(io.BytesIO(data)); gs=f.getGlyphSet(); hf=hb.Font(hb.Face(hb.Blob(data)))
class P:
    def __init__(s): s.v=[]
    def moveTo(s,p): s.v.append(p)
    def lineTo(s,p): s.v.append(p)
    def qCurveTo(s,*p): s.v+=p
    def curveTo(s,*p): s.v+=p
    def closePath(s): pass
for n in order[2:]:
    pen=DecomposingRecordingPen(gs)
    try:
        gs[n].draw(pen); ft=[a[0] for op,a in pen.value if a]
    except Exception as e: ft=repr(e)
    q=P(); hf.draw_glyph_with_pen(f.getGlyphID(n),q)
    print(n,'\n  fontTools',ft,'\n  HarfBuzz ',q.v[:4])
