"""C06 witness: GPOS compaction (otlLib.optimize.gpos.compact_class_pairs, any level 1..9)
drops Class1 rows whose values are all zero.  The glyphs of such a row lose their coverage
in the compacted subtables, so a LATER subtable of the same lookup that also covers them
starts to apply: text that had no kerning (explicit zero exception in the first subtable)
gets the second subtable's value.

    pos [B] [X] 0;  subtable;  pos [B] [X] 77;      ->  B X : 0 before compaction, 77 after

Run:  PYTHONPATH=/repo/Lib /venv/bin/python c06_compaction_zero_row.py
"""
import io
from fontTools.fontBuilder import FontBuilder
from fontTools.feaLib.builder import addOpenTypeFeaturesFromString
from fontTools.pens.ttGlyphPen import TTGlyphPen
from fontTools.otlLib.optimize.gpos import compact
import uharfbuzz as hb

names = [".notdef", "A", "B", "X", "Y"]
FEA = """
feature tst1 {
    pos [A] [X] -40;
    pos [B] [X] 0;
    pos [B] [Y] 0;
    subtable;
    pos [B] [X] 77;
} tst1;
"""


def build(level):
    fb = FontBuilder(1000, isTTF=True)
    fb.setupGlyphOrder(names)
    fb.setupCharacterMap({0xF0000 + i: n for i, n in enumerate(names)})
    fb.setupGlyf({n: TTGlyphPen(None).glyph() for n in names})
    fb.setupHorizontalMetrics({n: (500, 0) for n in names})
    fb.setupHorizontalHeader(ascent=800, descent=-200)
    fb.setupNameTable({"familyName": "T", "styleName": "R"})
    fb.setupOS2()
    fb.setupPost()
    addOpenTypeFeaturesFromString(fb.font, FEA)
    if level:
        compact(fb.font, level)
    b = io.BytesIO()
    fb.save(b)
    return b.getvalue(), [len(l.SubTable) for l in fb.font["GPOS"].table.LookupList.Lookup]


def shape(data, seq):
    font = hb.Font(hb.Face(hb.Blob(data)))
    buf = hb.Buffer()
    buf.add_codepoints([0xF0000 + names.index(n) for n in seq])
    buf.direction, buf.script, buf.language = "ltr", "Zyyy", "dflt"
    hb.shape(font, buf, {"tst1": True})
    return [p.x_advance for p in buf.glyph_positions]


res = {}
for level in (0, 1, 5, 9):
    data, nst = build(level)
    res[level] = shape(data, ["B", "X"])
    print("compaction level", level, "subtables", nst, "B X advances", res[level])
assert all(r == res[0] for r in res.values()), "compaction changed the kerning of B X: %r" % res
