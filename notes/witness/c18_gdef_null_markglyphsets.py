# witness: merging fonts whose GDEF is version >= 1.2 with a NULL MarkGlyphSetsDef offset (valid per the spec)
# crashes in layoutPostMerge (layoutPreMerge guards against None, layoutPostMerge does not)
import sys, io, os, tempfile
sys.path.insert(0, "/repo/Lib")
from fontTools.ttLib import TTFont
from fontTools.merge import Merger
d = tempfile.mkdtemp()
paths = []
for n in ("TestFamily-Master0", "TestFamily3-Regular"):   # GDEF 1.3 without mark glyph sets + a font with GPOS
    f = TTFont(); f.importXML("/repo/Tests/varLib/data/master_ttx_interpolatable_ttf/%s.ttx" % n)
    p = os.path.join(d, n + ".ttf"); f.save(p); paths.append(p)
    t = TTFont(p)
    if "GDEF" in t:
        g = t["GDEF"].table
        print(n, "GDEF version %#x MarkGlyphSetsDef=%r" % (g.Version, getattr(g, "MarkGlyphSetsDef", None)))
    print(n, "upem", t["head"].unitsPerEm, "tables", [x for x in ("GSUB", "GPOS", "GDEF") if x in t])
Merger().merge(paths)   # AttributeError: 'NoneType' object has no attribute 'Coverage'
