"""C11 witness: two contextual ligature rules whose inputs are in a prefix relation are
compiled into ONE shared nested ligature lookup (feaLib.builder.add_ligature_subst_chained_
-> ChainContextSubstBuilder.find_chainable_ligature_subst), so when the shorter rule fires
the nested lookup still prefers the longer ligature.

    sub a d' h' d' by c_d_e;      # only after "a"
    sub d' h' by f_i;

Text "d h d" (not preceded by a): the rules say  f_i d ; the compiled font gives c_d_e.
Run:  PYTHONPATH=/repo/Lib /venv/bin/python c11_inline_ligature_merge.py
"""
import io
from fontTools.fontBuilder import FontBuilder
from fontTools.feaLib.builder import addOpenTypeFeaturesFromString
from fontTools.pens.ttGlyphPen import TTGlyphPen
import uharfbuzz as hb

names = [".notdef", "a", "d", "h", "f_i", "c_d_e"]
fb = FontBuilder(1000, isTTF=True)
fb.setupGlyphOrder(names)
fb.setupCharacterMap({0xF0000 + i: n for i, n in enumerate(names)})
fb.setupGlyf({n: TTGlyphPen(None).glyph() for n in names})
fb.setupHorizontalMetrics({n: (500, 0) for n in names})
fb.setupHorizontalHeader(ascent=800, descent=-200)
fb.setupNameTable({"familyName": "T", "styleName": "R"})
fb.setupOS2()
fb.setupPost()
addOpenTypeFeaturesFromString(fb.font, """
feature tst1 {
    sub a d' h' d' by c_d_e;
    sub d' h' by f_i;
} tst1;
""")
gsub = fb.font["GSUB"].table
print("lookups:", [(i, l.LookupType, [type(s).__name__ for s in l.SubTable]) for i, l in enumerate(gsub.LookupList.Lookup)])
print("nested ligature lookup:", gsub.LookupList.Lookup[1].SubTable[0].ligatures and
      {k: [(l.Component, l.LigGlyph) for l in v] for k, v in gsub.LookupList.Lookup[1].SubTable[0].ligatures.items()})
b = io.BytesIO()
fb.save(b)
font = hb.Font(hb.Face(hb.Blob(b.getvalue())))
buf = hb.Buffer()
buf.add_codepoints([0xF0000 + names.index(n) for n in ["d", "h", "d"]])
buf.direction, buf.script, buf.language = "ltr", "Zyyy", "dflt"
hb.shape(font, buf, {"tst1": True})
got = [names[i.codepoint] for i in buf.glyph_infos]
print("shaped 'd h d':", got, "| the rules say ['f_i', 'd']")
assert got == ["f_i", "d"], "contextual 'sub d' h' by f_i' produced %r" % got
