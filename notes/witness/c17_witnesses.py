# C17 witnesses: PYTHONPATH=/repo/Lib /venv/bin/python w_c17.py
import io, logging; logging.disable(logging.CRITICAL)
from fontTools.ttLib import TTFont
from fontTools.ttLib.reorderGlyphs import reorderGlyphs
from fontTools.ttLib.scaleUpem import scale_upem
import fontTools.cffLib as cffLib
import uharfbuzz as hb
T='/repo/Tests/'
def compile_ttx(p):
    f=TTFont(recalcTimestamp=False); f.importXML(T+p); b=io.BytesIO(); f.save(b); return b.getvalue()
def save(f): b=io.BytesIO(); f.save(b); return b.getvalue()
def H(data, var=None):
    f=hb.Font(hb.Face(hb.Blob(data)))
    if var: f.set_variations(var)
    return f
def first_pt(font,gid):
    class P:
        v=None
        def moveTo(s,p): s.v=s.v or p
        lineTo=curveTo=qCurveTo=lambda s,*a:None
        def closePath(s): pass
    p=P(); font.draw_glyph_with_pen(gid,p); return p.v
print('F3  CFF2 from binary, swap A/a')
d=compile_ttx('fontBuilder/data/test_var.otf.ttx'); f=TTFont(io.BytesIO(d)); o=f.getGlyphOrder(); n=list(o); i,j=n.index('A'),n.index('a'); n[i],n[j]=n[j],n[i]
reorderGlyphs(f,n); d1=save(f)
print('    U+0041 starts at', first_pt(H(d),H(d).get_nominal_glyph(0x41)), '->', first_pt(H(d1),H(d1).get_nominal_glyph(0x41)))
print('F4  MATH with absent coverage')
try: f=TTFont(io.BytesIO(compile_ttx('subset/data/test_math_closure.ttx'))); o=f.getGlyphOrder(); reorderGlyphs(f,[o[0]]+o[1:][::-1]); print('    ok')
except Exception as e: print('   ',type(e).__name__,e)
print('N1  lazy=True')
d=open(T+'subset/data/Lobster.subset.otf','rb').read()
for lazy in (None,True):
    f=TTFont(io.BytesIO(d),lazy=lazy); o=f.getGlyphOrder(); reorderGlyphs(f,[o[0]]+o[2:]+[o[1]]); g=TTFont(io.BytesIO(save(f)))
    st=[st for lk in g['GSUB'].table.LookupList.Lookup for st in lk.SubTable if st.LookupType==4][0]
    print('    lazy=%s ligatures:'%lazy, {k:[(l.Component,l.LigGlyph) for l in v] for k,v in st.ligatures.items()})
try: f=TTFont(T+'cffLib/data/LinLibertine_RBI.otf',lazy=True); o=f.getGlyphOrder(); reorderGlyphs(f,[o[0]]+o[1:][::-1])
except Exception as e: print('    LinLibertine lazy=True:',type(e).__name__,e)
print('N2  HVAR without AdvWidthMap')
d=compile_ttx('subset/data/TestHVVAR.ttx'); f=TTFont(io.BytesIO(d)); o=f.getGlyphOrder(); n=[o[0]]+o[2:]+[o[1]]; reorderGlyphs(f,n); d1=save(f)
v={'wght':900}; print('    advance of B at wght=900:', H(d,v).get_glyph_h_advance(o.index('B')), '->', H(d1,v).get_glyph_h_advance(n.index('B')))
print('N3  VORG records')
d=compile_ttx('varLib/data/master_vvar_cff2/TestVVAR.0.ttx'); f=TTFont(io.BytesIO(d)); scale_upem(f,2000); g=TTFont(io.BytesIO(save(f)))
print('    ', dict(list(TTFont(io.BytesIO(d))['VORG'].VOriginRecords.items())[:2]), '->', dict(list(g['VORG'].VOriginRecords.items())[:2]), 'default', g['VORG'].defaultVertOriginY)
cffLib.topDictOperators[[e[1] for e in cffLib.topDictOperators].index('FontMatrix')][3][:]=[0.001,0,0,0.001,0,0]
print('N4  avar2')
d=open(T+'ttLib/tables/data/Amstelvar-avar2.subset.ttf','rb').read(); f=TTFont(io.BytesIO(d)); scale_upem(f,4000); d1=save(f)
v={'XOPQ':200}; print('    normalised coords', [round(c,4) for c in H(d,v).get_var_coords_normalized()][:6], '->', [round(c,4) for c in H(d1,v).get_var_coords_normalized()][:6])
print('N5  COLRv1 x2')
try: f=TTFont(io.BytesIO(compile_ttx('ttLib/tables/data/COLRv1-clip-boxes-glyf.ttx'))); scale_upem(f,2*f['head'].unitsPerEm); save(f); print('    ok')
except Exception as e: print('   ',type(e).__name__,str(e)[:80])
print('N6  CFF from TTX')
for p in ('ttx/data/TestOTF.ttx','fontBuilder/data/test_var.otf.ttx'):
    try: f=TTFont(); f.importXML(T+p); scale_upem(f,2000); print('    ok')
    except Exception as e: print('   ',p,type(e).__name__,e)
print('N7  FontMatrix')
print('    shared default before:', cffLib.TopDict.defaults['FontMatrix'])
f=TTFont(T+'ttx/data/TestOTF.otf'); scale_upem(f,2000); g=TTFont(io.BytesIO(save(f)))
print('    shared default after :', cffLib.TopDict.defaults['FontMatrix'], '; saved font has FontMatrix in rawDict:', 'FontMatrix' in g['CFF '].cff.topDictIndex[0].rawDict, 'upem', g['head'].unitsPerEm)
