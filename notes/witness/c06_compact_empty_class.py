"""C06 witness: fontTools.otlLib.optimize.gpos.compact() crashes with IndexError on a corpus
font whose PairPos format 2 has a class index that no glyph uses (an 'empty' class) while the
Class1Record/Class2Record matrix still holds a non-zero value in that row/column:
compact_class_pairs builds the class tuple () for it and _getClassRanges(()) does glyphIDs[0].

Run:  PYTHONPATH=/repo/Lib /venv/bin/python c06_compact_empty_class.py
"""
from fontTools.ttLib import TTFont
from fontTools.otlLib.optimize.gpos import compact

font = TTFont("/repo/Tests/cffLib/data/LinLibertine_RBI.otf")
for lk in font["GPOS"].table.LookupList.Lookup:
    for st in lk.SubTable:
        st = getattr(st, "ExtSubTable", st)
        if lk.LookupType in (2, 9) and getattr(st, "Format", None) == 2 and hasattr(st, "ClassDef2"):
            used1 = set(st.ClassDef1.classDefs.values()) | {0}
            used2 = set(st.ClassDef2.classDefs.values())
            e1 = [i for i in range(st.Class1Count) if i not in used1]
            e2 = [j for j in range(1, st.Class2Count) if j not in used2]
            if e1 or e2:
                print("PairPos format 2: Class1Count", st.Class1Count, "empty class1 ids", e1[:5], "Class2Count", st.Class2Count, "empty class2 ids", e2[:5])
compact(font, 5)
print("compacted")
