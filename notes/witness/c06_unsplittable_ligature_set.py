"""C06 witness: a LigatureSubst whose single LigatureSet exceeds 64 KiB has no valid packing.
Instead of raising OTLOffsetOverflowError, BaseTTXConverter.compile keeps "resolving" the
overflow: splitLigatureSubst cuts the coverage "in half" (oldLen // 2 == 0 for one first
glyph), leaves an EMPTY subtable behind and moves everything to a new one, which overflows
in exactly the same way -> one more subtable per two rounds, no progress, practically
non-terminating (the whole table is recompiled every round).

Run:  PYTHONPATH=/repo/Lib /venv/bin/python c06_unsplittable_ligature_set.py   (stops itself after 40 rounds)
"""
import io
import random
from fontTools.fontBuilder import FontBuilder
from fontTools.pens.ttGlyphPen import TTGlyphPen
from fontTools.otlLib import builder as B
from fontTools.ttLib import newTable
from fontTools.ttLib.tables import otTables as ot, otBase

names = [".notdef"] + ["g%03d" % i for i in range(1, 400)]
rnd = random.Random(1)
ligs = {}
while len(ligs) < 8200:
    ligs[("g001",) + tuple(rnd.choice(names[2:380]) for _ in range(rnd.choice([3, 4])))] = rnd.choice(names[380:])
fb = FontBuilder(1000, isTTF=True)
fb.setupGlyphOrder(names)
fb.setupCharacterMap({0xF0000 + i: n for i, n in enumerate(names)})
fb.setupGlyf({n: TTGlyphPen(None).glyph() for n in names})
fb.setupHorizontalMetrics({n: (500, 0) for n in names})
fb.setupHorizontalHeader(ascent=800, descent=-200)
fb.setupNameTable({"familyName": "T", "styleName": "R"})
fb.setupOS2()
fb.setupPost()
t = ot.GSUB()
t.Version = 0x00010000
t.LookupList = ot.LookupList()
t.LookupList.Lookup = [B.buildLookup([B.buildLigatureSubstSubtable(ligs)])]
t.LookupList.LookupCount = 1
t.FeatureList = ot.FeatureList()
t.FeatureList.FeatureRecord = []
t.FeatureList.FeatureCount = 0
t.ScriptList = ot.ScriptList()
t.ScriptList.ScriptRecord = []
t.ScriptList.ScriptCount = 0
fb.font["GSUB"] = newTable("GSUB")
fb.font["GSUB"].table = t
fb.font.cfg["fontTools.ttLib.tables.otBase:USE_HARFBUZZ_REPACKER"] = False

rounds = []
orig = otBase.BaseTTXConverter.tryResolveOverflow


class Stop(BaseException):
    pass


def spy(self, font, e, last):
    ok = orig(self, font, e, last)
    lk = font["GSUB"].table.LookupList.Lookup[0]
    subs = [getattr(s, "ExtSubTable", s) for s in lk.SubTable]
    rounds.append((e.value.SubTableIndex, e.value.itemName, ok, [len(s.ligatures) for s in subs][-4:]))
    if len(rounds) >= 40:
        raise Stop()
    return ok


otBase.BaseTTXConverter.tryResolveOverflow = spy
try:
    fb.save(io.BytesIO())
    print("saved?!")
except otBase.OTLOffsetOverflowError as e:
    print("raised OTLOffsetOverflowError (expected behaviour):", e)
except Stop:
    print("no error after %d resolution rounds; last rounds (SubTableIndex, item, ok, ligature-set counts of the last subtables):" % len(rounds))
    for r in rounds[-6:]:
        print("   ", r)
    raise SystemExit("overflow resolution makes no progress on an unsplittable LigatureSet")
