# witness: subsetting a gvar font without HVAR with default options (notdef_outline=False)
# drops the advance-width variation of .notdef
import sys, io
sys.path.insert(0, "/repo/Lib")
from fontTools.ttLib import TTFont
from fontTools import subset
import uharfbuzz as hb

src = TTFont(); src.importXML("/repo/Tests/subset/data/TestGVAR.ttx")
b = io.BytesIO(); src.save(b); orig = b.getvalue()
f = TTFont(io.BytesIO(orig))
s = subset.Subsetter(subset.Options())          # defaults
s.populate(unicodes=sorted(f.getBestCmap()))    # keep every character
s.subset(f)
b = io.BytesIO(); f.save(b); sub = b.getvalue()
def adv(data, gid, wght):
    font = hb.Font(hb.Face(hb.Blob(data))); font.set_variations({"wght": wght}); return font.get_glyph_h_advance(gid)
for w in (100, 400, 617.2, 900):
    print("wght", w, ".notdef advance original", adv(orig, 0, w), "subset", adv(sub, 0, w))
print("gvar[.notdef] in subset:", f["gvar"].variations[f.getGlyphOrder()[0]])
