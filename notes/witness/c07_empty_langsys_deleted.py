# witness: a language system whose own features are all subset away is DELETED by the subsetter, so the language
# falls back to the script's default language system -- which may carry features the language had excluded.
# Here latn/NLD excludes the default kerning (exclude_dflt); after subsetting to {a, b} the NLD LangSys is gone and
# text tagged Dutch is kerned with the default pair although the original font does not kern it.
import io, sys
sys.path.insert(0, "/repo/Lib")
import uharfbuzz as hb
from fontTools import subset
from fontTools.fontBuilder import FontBuilder
from fontTools.pens.ttGlyphPen import TTGlyphPen
from fontTools.ttLib import TTFont

GLYPHS = [".notdef", "a", "b", "c", "d"]
FEA = """
languagesystem DFLT dflt;
languagesystem latn dflt;
languagesystem latn NLD;
feature kern {
    pos a b -50;
    script latn;
    language NLD exclude_dflt;
    pos c d -90;
} kern;
"""
fb = FontBuilder(1000, isTTF=True)
fb.setupGlyphOrder(GLYPHS)
fb.setupCharacterMap({ord(g): g for g in GLYPHS[1:]})
pen = TTGlyphPen(None); pen.moveTo((0, 0)); pen.lineTo((100, 0)); pen.lineTo((100, 100)); pen.closePath()
g = pen.glyph()
fb.setupGlyf({n: g for n in GLYPHS})
fb.setupHorizontalMetrics({n: (500, 0) for n in GLYPHS})
fb.setupHorizontalHeader(ascent=800, descent=-200)
fb.setupNameTable({"familyName": "W", "styleName": "R"}); fb.setupOS2(); fb.setupPost()
fb.addOpenTypeFeatures(FEA)
b = io.BytesIO(); fb.save(b); orig = b.getvalue()

f = TTFont(io.BytesIO(orig))
s = subset.Subsetter(subset.Options()); s.populate(text="ab"); s.subset(f)
b = io.BytesIO(); f.save(b); sub = b.getvalue()

def langsys(data):
    t = TTFont(io.BytesIO(data))["GPOS"].table
    return {r.ScriptTag: (["dflt"] if r.Script.DefaultLangSys else []) + [l.LangSysTag for l in r.Script.LangSysRecord] for r in t.ScriptList.ScriptRecord}

def shape(data, lang):
    font = hb.Font(hb.Face(data)); buf = hb.Buffer(); buf.add_str("ab")
    buf.direction = "ltr"; buf.script = "Latn"; buf.language = lang
    hb.shape(font, buf, {})
    return [p.x_advance for p in buf.glyph_positions]

print("GPOS language systems original:", langsys(orig))
print("GPOS language systems subset  :", langsys(sub))
for lang in ("en", "nl"):
    print("text 'ab' language=%s  original advances %s  subset advances %s" % (lang, shape(orig, lang), shape(sub, lang)))
