"""C11 witnesses for two asFea defects (PYTHONPATH=/repo/Lib /venv/bin/python c11_asfea_defects.py)

1. IgnorePosStatement.asFea drops the ' marks when the context has neither backtrack nor
   lookahead: `ignore pos a' b';` prints `ignore pos a b;`, which parses as input a + lookahead b
   -> not a fixed point, and the recompiled GPOS differs (and shapes differently).
2. Anchor.asFea / AnchorDefinition.asFea test `if self.contourpoint:` and drop `contourpoint 0`
   -> anchor format 2 becomes format 1 in the recompiled GPOS.
"""
import io
from fontTools.ttLib import TTFont
from fontTools.feaLib.parser import Parser
from fontTools.feaLib.builder import addOpenTypeFeaturesFromString


def font():
    f = TTFont()
    f.setGlyphOrder([".notdef", "a", "b", "acute"])
    return f


def roundtrip(fea):
    gm = font().getReverseGlyphMap()
    t1 = Parser(io.StringIO(fea), gm).parse().asFea()
    t2 = Parser(io.StringIO(t1), gm).parse().asFea()
    f1, f2 = font(), font()
    addOpenTypeFeaturesFromString(f1, fea)
    addOpenTypeFeaturesFromString(f2, t1)
    same = all(f1.getTableData(t) == f2.getTableData(t) for t in ("GPOS",))
    return t1, t2, same


t1, t2, same = roundtrip("feature tst1 {\n    ignore pos a' b';\n    pos [a b]' 50;\n} tst1;\n")
print(t1, "\n--\n", t2, "\nfixed point:", t1 == t2, " identical GPOS:", same)
bad1 = (t1 != t2) or not same
t1, t2, same = roundtrip("markClass acute <anchor 100 500 contourpoint 0> @TOP;\nfeature tst1 {\n    pos base a <anchor 250 450 contourpoint 0> mark @TOP;\n} tst1;\n")
print(t1, "\nfixed point:", t1 == t2, " identical GPOS:", same)
bad2 = not same
assert not bad1, "ignore pos a' b' is not preserved by asFea"
assert not bad2, "contourpoint 0 is not preserved by asFea"
