# D7: convertCFF2ToCFF keeps FDSelect format 4 (CFF2-only) in the CFF table; HarfBuzz then draws no glyph at all.
# PYTHONPATH=/repo/Lib:/verif /venv/bin/python d7_fdselect4.py
import io
from fontTools.ttLib import TTFont
from fontTools.cffLib.CFF2ToCFF import convertCFF2ToCFF
from vmon.oracle.hbft import HB
f = TTFont(recalcBBoxes=False); f.importXML("/repo/Tests/cffLib/data/TestFDSelect4.ttx")
b = io.BytesIO(); f.save(b); data = b.getvalue()
f = TTFont(io.BytesIO(data), recalcBBoxes=False)
convertCFF2ToCFF(f)
b = io.BytesIO(); f.save(b); out = b.getvalue()
print("FDSelect format after:", TTFont(io.BytesIO(out))["CFF "].cff.topDictIndex[0].FDSelect.format)
print("pen items per glyph before:", [len(HB(data).outline(i)) for i in range(3)], "after:", [len(HB(out).outline(i)) for i in range(3)])
