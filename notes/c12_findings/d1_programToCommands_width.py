# D1: programToCommands invents a width when >=2 blend operators precede the first stack-clearing operator.
# PYTHONPATH=/repo/Lib /venv/bin/python d1_programToCommands_width.py
from fontTools.cffLib.specializer import programToCommands, generalizeProgram, specializeProgram
gnr = lambda vsindex: 1                      # one region
p = [10, 1, 1, "blend", 20, 2, 1, "blend", "rmoveto", 5, "hlineto"]     # dx and dy blended separately: valid CFF2
print(programToCommands(p, gnr))             # [('', [[10, 1, 1]]), ('rmoveto', [[20, 2, 1]]), ...]  <- dx taken as "width"
g = generalizeProgram([10, 20, 1, 2, 2, "blend", "rmoveto", 5, "hlineto"], gnr)
print(g)                                     # fontTools' own general form = the program above
try:
    specializeProgram(g, gnr)
except ValueError as e:
    print("specializeProgram(generalizeProgram(p)) raises ValueError", e)
