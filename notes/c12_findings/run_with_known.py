import sys, os
sys.path.insert(0, '/verif')
from vmon import env, runner
runner.KNOWN_PATH = '/tmp/vmon-c12/known.json'
tier = sys.argv[1]
only = sys.argv[2] if len(sys.argv) > 2 and sys.argv[2] != '-' else None
jobs = int(sys.argv[3]) if len(sys.argv) > 3 else 6
sys.exit(runner.run('C12', tier, int(os.environ.get('VERIF_SEED', '0')), jobs=jobs, only=only))
