import sys, os, shutil, subprocess, json
SRC = '/repo/Lib/fontTools'
DST = '/tmp/vmon-mut-c12/Lib/fontTools'
M = {
 'M1-hv-parity': ('cffLib/specializer.py', '''        elif {op1, op2} == {"vlineto", "hlineto"}:
            new_op = op1''', '''        elif {op1, op2} == {"vlineto", "hlineto"}:
            new_op = op2''', '^(prog|long):'),
 'M2a-gen-hhcurveto-lead': ('cffLib/specializer.py', '''            yield ("rrcurveto", [args[1], args[0], args[2], args[3], args[4], 0])''',
                            '''            yield ("rrcurveto", [args[0], args[1], args[2], args[3], args[4], 0])''', '^prog:dialect=cff,'),
 'M2b-spec-hhcurveto-lead': ('cffLib/specializer.py', '''                        args = args[1:2] + args[:1] + args[2:]''', '''                        args = args[:1] + args[1:2] + args[2:]''', '^prog:dialect=cff,'),
 'M3a-stackuse-ignores-blend': ('cffLib/specializer.py', '''def _argsStackUse(args):
    stackLen = 0''', '''def _argsStackUse(args):
    return len(args)
    stackLen = 0''', '^(prog:dialect=cff2|long:dialect=cff2)'),
 'M3b-stack-off-by-two': ('cffLib/specializer.py', '''        if new_op and combinedStackUse < maxstack:''', '''        if new_op and combinedStackUse < maxstack + 2:''', '^(prog|long):'),
 'M4a-cff2tocff-wrong-nominal': ('cffLib/CFF2ToCFF.py', '''            cs.program.insert(0, width - private.nominalWidthX)''', '''            cs.program.insert(0, width - private.defaultWidthX)''', '^(gfont:dialect=cff2s|font:op=(convert|roundtrip))'),
 'M4b-dehint-wrong-nominal': ('cffLib/transforms.py', '''                    0, charstring.width - charstring.private.nominalWidthX''', '''                    0, charstring.width - charstring.private.defaultWidthX''', '^(gfont:dialect=cff,|font:op=(remove_hints|subset))'),
 'M5-desub-drops-arg': ('cffLib/transforms.py', '''            desubroutinized[idx - 2 : idx] = expansion''', '''            desubroutinized[idx - 3 : idx] = expansion''', '^(gfont|font:op=desub)'),
 'M6a-dehint-leaves-mask': ('cffLib/transforms.py', '''                del p[i : i + 2]''', '''                del p[i : i + 1]''', '^(gfont:dialect=cff,|font:op=remove_hints)'),
 'M6b-dehint-implicit-vstem-shift': ('cffLib/transforms.py', '''                hints.last_hint = index + 1
                hints.status = 0''', '''                hints.last_hint = index
                hints.status = 0''', '^(gfont:dialect=cff,|font:op=remove_hints)'),
 'M7a-tocff2-keeps-width': ('cffLib/CFFToCFF2.py', '''            assert len(program) >= 1, program
            program.pop(0)''', '''            assert len(program) >= 1, program''', '^(gfont:dialect=cff,|font:op=(convert|roundtrip))'),
 'M7b-tocff2-keeps-endchar': ('cffLib/CFFToCFF2.py', '''        if program and program[-1] == "endchar":
            program.pop()''', '''        if program and program[-1] == "endchar":
            pass''', '^(gfont:dialect=cff,|font:op=(convert|roundtrip))'),
 'M8a-encodeFloat-7-digits': ('misc/psCharStrings.py', '''    s = "%.8G" % f''', '''    s = "%.7G" % f''', '^prog:dialect=cff,'),
 'M8b-encodeFixed-drops-bit': ('misc/psCharStrings.py', '''    value = floatToFixed(f, precisionBits=16)
    if value & 0xFFFF == 0:''', '''    value = floatToFixed(f, precisionBits=16) & ~1
    if value & 0xFFFF == 0:''', '^prog:dialect=cff,n=40,numeric=(fixed|real)'),
 'M9-compile-smallint-boundary': ('misc/psCharStrings.py', '''        elif 108 <= value <= 1131:
            value = value - 108''', '''        elif 108 <= value <= 1131:
            value = value - 107''', '^prog:dialect=cff,n=40,numeric=int,part=[01]$'),
 'M10-desub-keeps-return': ('cffLib/transforms.py', '''            if expansion[-1] == "return":
                expansion = expansion[:-1]''', '''            if expansion[-1] == "return":
                expansion = expansion[:]''', '^gfont:dialect=cff,'),
 'M11-unused-subr-renumber': ('cffLib/transforms.py', '''            p[i - 1] = subrs._used.index(p[i - 1] + subrs._old_bias) - subrs._new_bias''', '''            p[i - 1] = subrs._used.index(p[i - 1] + subrs._old_bias) - subrs._old_bias''', '^gfont:dialect=cff,'),
 'M12-00curveto-wrong-line': ('cffLib/specializer.py', '''                c, args = _categorizeVector(args[1:3])''', '''                c, args = _categorizeVector(args[0:2])''', '^prog:dialect=cff,'),
}
names = sys.argv[1:] or list(M)
res = {}
for name in names:
    rel, old, new, only = M[name]
    src = open(os.path.join(SRC, rel)).read()
    assert src.count(old) == 1, (name, src.count(old))
    open(os.path.join(DST, rel), 'w').write(src.replace(old, new))
    env = dict(os.environ, VMON_LIB='/tmp/vmon-mut-c12/Lib')
    p = subprocess.run(['/venv/bin/python', '-B', '/tmp/vmon-c12/run_known.py', 'quick', only, '6'], cwd='/verif', env=env,
                       stdout=subprocess.PIPE, stderr=subprocess.STDOUT, text=True)
    shutil.copy(os.path.join(SRC, rel), os.path.join(DST, rel))
    lines = [l for l in p.stdout.splitlines() if 'mech:' in l]
    mechs = sorted({l.split('mech: ')[1][:150] for l in lines})
    res[name] = (p.returncode, len(lines), mechs[:4])
    print(name, 'exit', p.returncode, 'distinct mechs', len(mechs))
    for m in mechs[:4]: print('     ', m)
    print('     ', p.stdout.splitlines()[-1][:200])
    sys.stdout.flush()
