# D10: specializeCommands step 5 - the `continue` statements in the curve/curve merge branch skip
# `stackUse = args1StackUse`, so the next merge decisions use the stack estimate of the command to the right.
# With blended operands (transient depth k+2 per blend) the merged operator exceeds the CFF2 limit of 513.
# PYTHONPATH=/repo/Lib /venv/bin/python d10_specializer_stale_stackuse.py
from fontTools.cffLib.specializer import specializeCommands, commandsToProgram
k = 3
plain = ("rrcurveto", [1, 2, 3, 4, 5, 6])
blended_last = ("rrcurveto", [1, 2, 3, 4, 5, [6] + [1] * k + [1]])      # last operand blended: transient depth 5 + k + 2
hv = ("rrcurveto", [7, 0, 1, 2, 0, 8])                                  # becomes hvcurveto; (rrcurveto, hvcurveto) hits `continue`
cmds = [("rmoveto", [0, 0])] + [plain] * 84 + [blended_last, hv]
out = specializeCommands(cmds, generalizeFirst=False, maxstack=513)
prog = commandsToProgram(out)
depth = peak = 0
for i, t in enumerate(prog):
    if t == "blend":
        depth -= 1 + prog[i - 1] * k
    elif isinstance(t, str):
        depth = 0
    else:
        depth += 1
        peak = max(peak, depth)
print("operators:", [t for t in prog if isinstance(t, str)], "peak operand stack depth:", peak, "(limit 513)")
