# D8: optimizeWidths documents "a list of glyph widths, or dictionary mapping glyph width to number of glyphs" but a
# plain dict raises KeyError (only a defaultdict works).
# PYTHONPATH=/repo/Lib /venv/bin/python d8_optimizeWidths_dict.py
from fontTools.cffLib.width import optimizeWidths
print(optimizeWidths([0, 492, 600]))
try:
    print(optimizeWidths({0: 1, 492: 1, 600: 1}))
except KeyError as e:
    print("KeyError", e)
