import os, shutil, sys
SRC='/repo/Lib/fontTools'; DST='/tmp/vmon-fix-c12/Lib/fontTools'
if os.path.exists('/tmp/vmon-fix-c12'): shutil.rmtree('/tmp/vmon-fix-c12')
shutil.copytree('/repo/Lib', '/tmp/vmon-fix-c12/Lib', ignore=shutil.ignore_patterns('__pycache__'))
def patch(rel, pairs):
    p=os.path.join(DST, rel); s=open(p).read()
    for old,new in pairs:
        assert s.count(old)==1, (rel, old[:60], s.count(old))
        s=s.replace(old,new)
    open(p,'w').write(s)
# D1
patch('cffLib/specializer.py', [('''            lenBlendStack += numBlends + lenStack - 1
            lastBlendIndex = lenStack''','''            lenBlendStack += numBlends + lenStack - 1 - lastBlendIndex
            lastBlendIndex = lenStack''')])
# D2 a/b/c
patch('cffLib/transforms.py', [
 ('''            for i in range(hints.last_checked, len(charString.program) - 1):
                if isinstance(charString.program[i], str):''','''            end = len(charString.program)
            if end and charString.program[-1] == "return":
                end -= 1
            for i in range(hints.last_checked, end):
                if _is_op(charString.program[i]):'''),
 ('''            for i in range(hints.last_checked, index - 1):
                if isinstance(cs.program[i], str):
                    hints.status = 2
                    break
            else:
                # We are an implicit vstem''','''            for i in range(hints.last_checked, index - 1):
                if _is_op(cs.program[i]):
                    hints.status = 2
                    break
            else:
                # We are an implicit vstem'''),
 ('''            for i in range(hints.last_checked, index - 1):
                if isinstance(cs.program[i], str):
                    hints.status = 2
                    break
            hints.last_checked = index''','''            for i in range(hints.last_checked, index - 1):
                if _is_op(cs.program[i]):
                    hints.status = 2
                    break
            hints.last_checked = index'''),
 ('''        charstring.program = charstring.program[hints.last_hint :]''','''        keep = charstring.program[:2] if (charstring.program[1:2] == ["vsindex"] and hints.last_hint >= 2) else []
        charstring.program = keep + charstring.program[hints.last_hint :]'''),
 ('''def _uniq_sort(l):''','''def _is_op(token):
    # blend/vsindex only transform operands: they do not end a hint operand list
    return isinstance(token, str) and token not in ("blend", "vsindex")


def _uniq_sort(l):'''),
])
# D4, D7
patch('cffLib/CFF2ToCFF.py', [
 ('''    for fd in fdArray:
        fd.setCFF2(False)
        privateDict = fd.Private''','''    for fd in fdArray:
        privateDict = fd.Private  # load it while the FontDict still says CFF2
        getattr(privateDict, "Subrs", None)
        fd.setCFF2(False)'''),
 ('''    topDict.ROS = ("Adobe", "Identity", 0)''','''    if getattr(topDict.FDSelect, "format", None) == 4:
        topDict.FDSelect.format = 3  # format 4 exists in CFF2 only
    topDict.ROS = ("Adobe", "Identity", 0)'''),
])
# D5
patch('misc/psCharStrings.py', [('''    def execute(self, charString):
        maxStackUse = 0

        def pushToStack(value):
            nonlocal maxStackUse
            self.operandStack.append(value)
            maxStackUse = max(maxStackUse, len(self.operandStack))

        super().execute(charString, pushToStack=pushToStack)
        return maxStackUse''','''    def execute(self, charString):
        if not self.callingStack:
            self.maxStackUse = 0

        def pushToStack(value):
            self.operandStack.append(value)
            self.maxStackUse = max(self.maxStackUse, len(self.operandStack))

        super().execute(charString, pushToStack=pushToStack)
        return self.maxStackUse''')])
# D8
patch('cffLib/width.py', [('''    if not hasattr(widths, "items"):
        d = defaultdict(int)
        for w in widths:
            d[w] += 1
        widths = d

    keys = sorted(widths.keys())''','''    if not hasattr(widths, "items"):
        d = defaultdict(int)
        for w in widths:
            d[w] += 1
        widths = d
    elif not isinstance(widths, defaultdict):
        d = defaultdict(int)
        d.update(widths)
        widths = d

    keys = sorted(widths.keys())''')])
# D9
patch('cffLib/CFFToCFF2.py', [('''        try:
            extractor.execute(cs)
        except _NominalWidthUsedError:''','''        try:
            extractor.execute(cs)
            if not extractor.gotWidth and extractor.operandStack:
                # the endchar that would have consumed the width sat in a subroutine truncated above
                raise nominalWidthXError
        except _NominalWidthUsedError:''')])
print('fixes applied in /tmp/vmon-fix-c12/Lib')
# D10
p=os.path.join(DST,'cffLib/specializer.py'); s=open(p).read()
for old in ('            if d1 == "r" or d2 == "r" or d0 == d3 == "r":\n                continue\n',
            '            if d is None:\n                continue\n',
            '                if d is None:\n                    continue\n',
            '                if d0 is None:\n                    continue\n'):
    assert old in s, old
    ind = old[:len(old) - len(old.lstrip())]
    head, tail = old.rsplit("continue\n", 1)
    cind = head[head.rindex("\n") + 1:]
    s = s.replace(old, head + "stackUse = _argsStackUse(args1)\n" + cind + "continue\n")
open(p,'w').write(s)
