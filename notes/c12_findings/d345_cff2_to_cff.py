# D3/D4/D5/D7: convertCFF2ToCFF
# PYTHONPATH=/repo/Lib:/verif /venv/bin/python d345_cff2_to_cff.py
import io
from fontTools.ttLib import TTFont
from fontTools.cffLib.CFF2ToCFF import convertCFF2ToCFF
from vmon.gen import c12_font as GF
from vmon.oracle.hbft import FT
def conv(progs, local=(), preload=False):
    data, _ = GF.build_cff2(progs, list(local), [], advances={"g0000": 700})
    f = TTFont(io.BytesIO(data), recalcBBoxes=False)
    if preload:
        [fd.Private.Subrs for fd in f["CFF2"].cff.topDictIndex[0].FDArray if hasattr(fd.Private, "Subrs")]
    convertCFF2ToCFF(f)
    b = io.BytesIO(); f.save(b)
    return b.getvalue()
# D4: IndexError when a glyph calls a local subroutine (Private dict loaded lazily *after* setCFF2(False))
try:
    conv([[-107, "callsubr"]], local=[[10, 20, "rmoveto", 30, "hlineto"]])
except IndexError as e:
    print("D4 IndexError:", e)
# D3: 24 stems (48 operands, legal in CFF2 and CFF) + inserted width = 49 operands; FreeType rejects the glyph
stems = [v for i in range(24) for v in (10, 20)]
out = conv([stems + ["hstem", 100, 200, "rmoveto", 50, "hlineto", 30, "vlineto"]])
try:
    FT(out).outline(1); print("D3 not reproduced")
except Exception as e:
    print("D3 FreeType:", e)
# D5: a 60-operand hlineto inside a subroutine is not seen by T2StackUseExtractor -> stays 60 deep in the CFF
out = conv([[100, 200, "rmoveto", -107, "callsubr"]], local=[[3] * 60 + ["hlineto"]], preload=True)
try:
    FT(out).outline(1); print("D5 not reproduced")
except Exception as e:
    print("D5 FreeType:", e)
out = conv([[100, 200, "rmoveto"] + [3] * 60 + ["hlineto"]])
print("   (same operator at top level is split correctly:", len(FT(out).outline(1)[0]), "pen items)")
