# D2: CFFFontSet.remove_hints() corrupts CFF2 charstrings (a) calling a subroutine whose tokens, except possibly the
# last one, are all operands (CFF2 subrs have no trailing 'return', the code skips the last token), (b) whose implicit
# vstem operands before the first hintmask are blended, (c) that start with vsindex (dropped together with the hints).
# PYTHONPATH=/repo/Lib:/verif /venv/bin/python d2_remove_hints_cff2.py
import io
from fontTools.ttLib import TTFont
from vmon.gen import c12_font as GF
from vmon.oracle.hbft import HB
from vmon.oracle import t2ref
REG = [{"wght": (0.0, 1.0, 1.0)}, {"wght": (-1.0, -1.0, 0.0)}]
VD = [[0], [0, 1]]
def show(title, progs, local=(), regions=None):
    data, _ = GF.build_cff2(progs, list(local), [], regions=regions, vardata=VD if regions else None)
    f = TTFont(io.BytesIO(data)); cff = f["CFF2"].cff
    loc = {"wght": 1.0} if regions else None
    before = HB(data, loc).outline(1)
    cff.remove_hints()
    cs = cff.topDictIndex[0].CharStrings[f.getGlyphOrder()[1]]
    prog = list(cs.program)
    try:
        b = io.BytesIO(); f.save(b)
        after = HB(b.getvalue(), loc).outline(1)
    except Exception as e:
        after = "font cannot be saved any more: %s: %s" % (type(e).__name__, e)
    try:
        errs = t2ref.run(prog, cff2=True, num_regions=lambda vs: len(VD[vs])).errors
    except t2ref.T2Error as e:
        errs = "not executable: %s" % e
    print(title, "\n  program after:", prog, "\n  HarfBuzz outline unchanged:", before == after, "| format errors per TN5177 machine:", errs)
show("(a) operand-only subr", [[10, 20, "hstem", 100, 200, "rmoveto", -107, "callsubr", "hlineto", 30, "vlineto"]], local=[[50]])
show("(b) blended implicit vstem", [[10, 20, "hstemhm", 5, 6, 1, 1, 2, "blend", "hintmask", b"\xc0", 100, 200, "rmoveto", 50, "hlineto", 30, "vlineto"]], regions=REG)
show("(c) vsindex", [[1, "vsindex", 10, 20, "hstem", 100, 7, 9, 1, "blend", 200, "rmoveto", 50, "hlineto", 30, "vlineto"]], regions=REG)
