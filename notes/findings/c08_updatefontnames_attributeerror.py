"""Witness (C08): instantiateVariableFont(..., updateFontNames=True) raises AttributeError (not the documented
ValueError) when a STAT AxisValue name exists only for some of the platforms present in the name table:
names._updateNameRecords checks that name IDs 1, 2 and the elided fallback exist for the platform but then calls
getName(n, *platform).toUnicode() for the axis-value name IDs, which may be None for that platform.

Font: Tests/fontBuilder/data/test_var.ttf.ttx (Mac + Windows records for IDs 1/2, axis value names Windows-only).
Run:  PYTHONPATH=/repo/Lib /venv/bin/python /verif/notes/findings/c08_updatefontnames_attributeerror.py
"""
import io, traceback
from fontTools.ttLib import TTFont
from fontTools.varLib import instancer

f = TTFont(); f.importXML("/repo/Tests/fontBuilder/data/test_var.ttf.ttx")
b = io.BytesIO(); f.save(b); data = b.getvalue()
font = TTFont(io.BytesIO(data))
stat = font["STAT"].table
print("STAT axis values:", [(av.Format, getattr(av, "AxisIndex", None), getattr(av, "Value", None), av.ValueNameID) for av in stat.AxisValueArray.AxisValue])
print("platforms in name:", sorted({(n.platformID, n.platEncID, n.langID) for n in font["name"].names}))
for lim in ({"LEFT": 0, "RGHT": 100, "UPPP": 0, "DOWN": 0}, {"RGHT": 100}, {"UPPP": 100}, {"DOWN": 100}, {"LEFT": 100}):
    try:
        instancer.instantiateVariableFont(TTFont(io.BytesIO(data)), dict(lim), updateFontNames=True)
        print(lim, "-> ok")
    except Exception as e:
        print(lim, "-> raised", type(e).__name__, e)
        traceback.print_exc(limit=-2)
        break
