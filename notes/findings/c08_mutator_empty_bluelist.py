"""Witness (C08, mutator route): varLib.mutator.instantiateVariableFont raises IndexError on a CFF2 font whose Private
dict has an empty blue list (OtherBlues = []); instancer.instantiateVariableFont handles the same font and location.
Run:  PYTHONPATH=/repo/Lib /venv/bin/python -W ignore /verif/notes/findings/c08_mutator_empty_bluelist.py
"""
import io
from fontTools.ttLib import TTFont
from fontTools.varLib import mutator, instancer

f = TTFont(); f.importXML("/repo/Tests/varLib/data/variable_ttx_interpolatable_cff2/interpolatable-test.ttx")
b = io.BytesIO(); f.save(b); data = b.getvalue()
loc = {"wght": 500, "opsz": 20}
instancer.instantiateVariableFont(TTFont(io.BytesIO(data)), dict(loc)); print("instancer: ok")
try:
    mutator.instantiateVariableFont(TTFont(io.BytesIO(data)), dict(loc)); print("mutator: ok")
except Exception as e:
    print("mutator: raised", type(e).__name__, e)
