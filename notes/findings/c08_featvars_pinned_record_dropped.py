"""Witness (C08): instancing FeatureVariations drops a record whose conditions are all on pinned axes
(and satisfied by the pins) when an earlier record already applies at the new default location.  Such a
record is unconditionally true in the instance and must stay as a condition-less record; instead the
instancer appends its catch-all record with the OLD default feature, so the substitution is lost
wherever the earlier records do not match.

Font: Tests/varLib/data/MutatorSans_All_Variable.ttx, rvrn records (normalised):
   0: wdth in [0, .328] and wght in [0, .5] -> lookups [0, 1]
   1: wght in [0, .5]                       -> lookups [1]
   2: wdth in [0, .328]                     -> lookups [0]      (I -> I.narrow)
Pin wdth=100 (normalised 0.1): at wght=900 only record 2 matches -> 'I' must become 'I.narrow'.

Run:  PYTHONPATH=/repo/Lib /venv/bin/python /verif/notes/findings/c08_featvars_pinned_record_dropped.py
"""
import io
from fontTools.ttLib import TTFont
from fontTools.varLib import instancer
import uharfbuzz as hb

f = TTFont(); f.importXML("/repo/Tests/varLib/data/MutatorSans_All_Variable.ttx")
b = io.BytesIO(); f.save(b); orig = b.getvalue()
inst = instancer.instantiateVariableFont(TTFont(io.BytesIO(orig)), {"wdth": 100})
b = io.BytesIO(); inst.save(b); ib = b.getvalue()
order = TTFont(io.BytesIO(orig)).getGlyphOrder()


def shape(data, loc):
    font = hb.Font(hb.Face(hb.Blob(data))); font.set_variations(loc)
    buf = hb.Buffer(); buf.add_str("I"); buf.guess_segment_properties(); hb.shape(font, buf, {})
    return [order[i.codepoint] for i in buf.glyph_infos]


for wght in (0, 400, 600, 900):
    o, i = shape(orig, {"wdth": 100, "wght": wght}), shape(ib, {"wght": wght})
    print("wght=%d  original(wdth=100): %s   instance: %s   %s" % (wght, o, i, "" if o == i else "<-- DIFFERS"))
t = inst["GSUB"].table
print("instance records:", [([(c.AxisIndex, c.FilterRangeMinValue, c.FilterRangeMaxValue) for c in (r.ConditionSet.ConditionTable if r.ConditionSet else [])],
                             [s.Feature.LookupListIndex for s in r.FeatureTableSubstitution.SubstitutionRecord]) for r in t.FeatureVariations.FeatureVariationRecord],
      "default rvrn lookups:", [fr.Feature.LookupListIndex for fr in t.FeatureList.FeatureRecord if fr.FeatureTag == "rvrn"])

# ---- second variant: the always-true record is itself the first one that applies at the new default; the
# instancer folds it into the default FeatureList (correct) but still appends the catch-all record with the
# OLD default, which shadows the new default wherever the remaining conditional records do not match.
print("\nvariant 2: pin wght=250, restrict wdth to (200, 500, 1000)")
lim = {"wght": 250, "wdth": (200, 500, 1000)}
inst = instancer.instantiateVariableFont(TTFont(io.BytesIO(orig)), dict(lim))
b = io.BytesIO(); inst.save(b); ib = b.getvalue()


def shape2(data, loc, text):
    font = hb.Font(hb.Face(hb.Blob(data))); font.set_variations(loc)
    buf = hb.Buffer(); buf.add_str(text); buf.guess_segment_properties(); hb.shape(font, buf, {})
    return [order[i.codepoint] for i in buf.glyph_infos]


for wdth in (250, 500, 600, 900):
    o, i = shape2(orig, {"wght": 250, "wdth": wdth}, "IS"), shape2(ib, {"wdth": wdth}, "IS")
    print("wdth=%d  original(wght=250): %s   instance: %s   %s" % (wdth, o, i, "" if o == i else "<-- DIFFERS"))
t = inst["GSUB"].table
print("instance records:", [([(c.AxisIndex, c.FilterRangeMinValue, c.FilterRangeMaxValue) for c in (r.ConditionSet.ConditionTable if r.ConditionSet else [])],
                             [s.Feature.LookupListIndex for s in r.FeatureTableSubstitution.SubstitutionRecord]) for r in t.FeatureVariations.FeatureVariationRecord],
      "default rvrn lookups:", [fr.Feature.LookupListIndex for fr in t.FeatureList.FeatureRecord if fr.FeatureTag == "rvrn"])
