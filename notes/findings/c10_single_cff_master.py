"""Witness (C10): varLib.build accepts a single-master designspace for TrueType masters
(Tests/varLib/data/SingleMaster.designspace) but raises IndexError for a CFF master:
varLib/cff.py merge_PrivateDicts indexes region_top_dicts[0] unconditionally.

Run:  PYTHONPATH=/repo/Lib /venv/bin/python /verif/notes/findings/c10_single_cff_master.py
"""
import io, traceback
from fontTools.fontBuilder import FontBuilder
from fontTools.pens.t2CharStringPen import T2CharStringPen
from fontTools.designspaceLib import DesignSpaceDocument, AxisDescriptor, SourceDescriptor
from fontTools.ttLib import TTFont
from fontTools import varLib


def master(is_ttf):
    fb = FontBuilder(1000, isTTF=is_ttf)
    fb.setupGlyphOrder([".notdef", "A"])
    fb.setupCharacterMap({0x41: "A"})
    if is_ttf:
        from fontTools.pens.ttGlyphPen import TTGlyphPen
        def g():
            p = TTGlyphPen(None); p.moveTo((0, 0)); p.lineTo((0, 500)); p.lineTo((500, 0)); p.closePath(); return p.glyph()
        fb.setupGlyf({".notdef": g(), "A": g()})
    else:
        def cs():
            p = T2CharStringPen(600, None); p.moveTo((0, 0)); p.lineTo((0, 500)); p.lineTo((500, 0)); p.closePath(); return p.getCharString()
        fb.setupCFF("S-Regular", {}, {".notdef": cs(), "A": cs()}, {})
    fb.setupHorizontalMetrics({".notdef": (600, 0), "A": (600, 0)})
    fb.setupHorizontalHeader(ascent=800, descent=-200)
    fb.setupNameTable({"familyName": "S", "styleName": "Regular"})
    fb.setupOS2()
    fb.setupPost()
    b = io.BytesIO(); fb.font.save(b); b.seek(0)
    return TTFont(b)


for is_ttf in (True, False):
    ds = DesignSpaceDocument()
    a = AxisDescriptor(); a.name, a.tag, a.minimum, a.default, a.maximum = "Weight", "wght", 400, 400, 400
    a.minimum, a.maximum = 100, 900
    ds.addAxis(a)
    s = SourceDescriptor(); s.name = "m0"; s.location = {"Weight": 400}; s.font = master(is_ttf); ds.addSource(s)
    try:
        vf, _, _ = varLib.build(ds)
        print("TrueType" if is_ttf else "CFF", "single master: built", sorted(vf.keys()))
    except Exception as e:
        print("TrueType" if is_ttf else "CFF", "single master: raised", type(e).__name__, e)
        traceback.print_exc(limit=-3)
