"""Witness (C08): a CFF2 charstring that relies on its Private DICT's `vsindex` (no explicit vsindex operator) is
mis-parsed by both instancing routes: cffLib.specializer.programToCommands (used by instancer.instantiateCFF2) and
varLib.mutator.interpolate_cff2_charstrings start every charstring at vsindex 0 instead of the Private default.
HarfBuzz (and the CFF2 spec, section 'vsindex': "the default is the value in the Private DICT") render the font fine.

Font: the two-axis CFF2 font of seeded/C08-instantiatecff2-vsindex-strip-before-renumber/demo.py with glyph B's
redundant `1 vsindex` operator removed (Private.vsindex = 1).

Run:  PYTHONPATH=/repo/Lib /venv/bin/python -W ignore /verif/notes/findings/c08_cff2_private_vsindex_default_ignored.py
"""
import io, importlib.util
import uharfbuzz as hb
from fontTools.ttLib import TTFont
from fontTools.varLib import instancer, mutator

spec = importlib.util.spec_from_file_location("demo", "/verif/seeded/C08-instantiatecff2-vsindex-strip-before-renumber/demo.py")
demo = importlib.util.module_from_spec(spec); spec.loader.exec_module(demo)
explicit = demo.build_cff2_vf()
f = TTFont(io.BytesIO(explicit))
cs = f["CFF2"].cff.topDictIndex[0].CharStrings["B"]; cs.decompile()
assert cs.program[:2] == [1, "vsindex"]
del cs.program[:2]                      # now implied by Private.vsindex = 1
b = io.BytesIO(); f.save(b); implied = b.getvalue()

loc = {"wdth": 150, "wght": 700}
print("HarfBuzz, explicit vs implied vsindex, glyph B identical:", demo.hb_eval(explicit, loc)["B"] == demo.hb_eval(implied, loc)["B"])
for name, fn in (("instancer {'wght': 700}", lambda: instancer.instantiateVariableFont(TTFont(io.BytesIO(implied)), {"wght": 700})),
                 ("instancer full pin", lambda: instancer.instantiateVariableFont(TTFont(io.BytesIO(implied)), dict(loc))),
                 ("mutator", lambda: mutator.instantiateVariableFont(TTFont(io.BytesIO(implied)), dict(loc)))):
    try:
        inst = fn(); b = io.BytesIO(); inst.save(b)
        (ai, pi), (ao, po) = demo.hb_eval(b.getvalue(), {"wdth": 150} if "wght" in name else {})["B"], demo.hb_eval(implied, loc)["B"]
        d = max([abs(ai - ao)] + [max(abs(p[0] - q[0]), abs(p[1] - q[1])) for p, q in zip(pi, po)]) if len(pi) == len(po) else float("inf")
        print(name, "-> no exception; glyph B differs from the original at the location by %.2f units%s" % (d, "" if d <= 1.5 else "  <-- WRONG"))
    except Exception as e:
        print(name, "-> raised", type(e).__name__, str(e)[:100])
