# PYTHONPATH=/repo/Lib /venv/bin/python /verif/notes/findings/c17_scale_anchor_point_components.py
# scale_upem raises AttributeError on a composite glyph whose component is attached by point
# matching (firstPt/secondPt, no x/y offset) - a valid TrueType construct.
import io
from fontTools.fontBuilder import FontBuilder
from fontTools.pens.ttGlyphPen import TTGlyphPen
from fontTools.ttLib import TTFont
from fontTools.ttLib.tables._g_l_y_f import Glyph, GlyphComponent
from fontTools.ttLib.scaleUpem import scale_upem

p = TTGlyphPen(None); p.moveTo((100, 0)); p.lineTo((100, 200)); p.lineTo((300, 200)); p.lineTo((300, 0)); p.closePath()
c1 = GlyphComponent(); c1.glyphName = "base"; c1.x, c1.y, c1.flags = 0, 0, 0
c2 = GlyphComponent(); c2.glyphName = "base"; c2.firstPt, c2.secondPt, c2.flags = 2, 0, 0
comp = Glyph(); comp.numberOfContours = -1; comp.components = [c1, c2]
fb = FontBuilder(1000, isTTF=True); fb.setupGlyphOrder([".notdef", "base", "anchored"]); fb.setupCharacterMap({})
fb.setupGlyf({".notdef": TTGlyphPen(None).glyph(), "base": p.glyph(), "anchored": comp})
fb.setupHorizontalMetrics({g: (500, 0) for g in (".notdef", "base", "anchored")}); fb.setupHorizontalHeader(ascent=800, descent=-200)
fb.setupNameTable({"familyName": "W", "styleName": "R"}); fb.setupOS2(); fb.setupPost()
b = io.BytesIO(); fb.save(b)
f = TTFont(io.BytesIO(b.getvalue()))
scale_upem(f, 2000)      # AttributeError: 'GlyphComponent' object has no attribute 'x'
print("no exception")
