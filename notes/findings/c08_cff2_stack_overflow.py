"""Witness (C08): partial instancing of a CFF2 font can emit charstrings whose `blend` operators need more
than 513 operands (the CFF2 stack limit, spec appendix B).  instantiateCFF2 specialises the commands (grouping
blends up to the stack limit) *before* it reads the instanced deltas back, i.e. with the ORIGINAL number of
regions; when rebasing tents multiplies the regions (moved defaults on two axes: 5 regions -> more than 11) the grouped blend no longer fits.  HarfBuzz / FreeType stop interpreting such a charstring, so the glyph loses its outline.

Run:  PYTHONPATH=/repo/Lib /venv/bin/python /verif/notes/findings/c08_cff2_stack_overflow.py
"""
import io, math
from fontTools.fontBuilder import FontBuilder
from fontTools.pens.t2CharStringPen import T2CharStringPen
from fontTools.designspaceLib import DesignSpaceDocument, AxisDescriptor, SourceDescriptor
from fontTools.ttLib import TTFont
from fontTools import varLib
from fontTools.varLib import instancer
import uharfbuzz as hb

N = 150  # points of the polygon


def master(scale, name):
    fb = FontBuilder(1000, isTTF=False)
    fb.setupGlyphOrder([".notdef", "star"])
    fb.setupCharacterMap({0x2A: "star"})
    pen = T2CharStringPen(600, None)
    pts = [(int(500 + (300 + 40 * (i % 2) + 7 * (i % 5)) * scale * math.cos(2 * math.pi * i / N)),
            int(350 + (300 + 40 * (i % 2) + 3 * (i % 7)) * scale * math.sin(2 * math.pi * i / N))) for i in range(N)]
    pen.moveTo(pts[0])
    for p in pts[1:]:
        pen.lineTo(p)
    pen.closePath()
    empty = T2CharStringPen(600, None).getCharString()
    fb.setupCFF("W-" + name, {}, {".notdef": empty, "star": pen.getCharString()}, {})
    fb.setupHorizontalMetrics({".notdef": (600, 0), "star": (600, 0)})
    fb.setupHorizontalHeader(ascent=800, descent=-200)
    fb.setupNameTable({"familyName": "W", "styleName": name})
    fb.setupOS2()
    fb.setupPost()
    b = io.BytesIO(); fb.font.save(b); b.seek(0)
    return TTFont(b)


ds = DesignSpaceDocument()
a = AxisDescriptor(); a.name, a.tag, a.minimum, a.default, a.maximum = "Weight", "wght", 100, 100, 900
ds.addAxis(a)
a = AxisDescriptor(); a.name, a.tag, a.minimum, a.default, a.maximum = "Width", "wdth", 50, 50, 200
ds.addAxis(a)
for (w, d), sc in (((100, 50), 1.0), ((900, 50), 1.25), ((100, 200), 0.8), ((900, 200), 1.1), ((500, 50), 1.05), ((100, 120), 0.95)):
    s = SourceDescriptor(); s.name = "m%d-%d" % (w, d); s.location = {"Weight": w, "Width": d}; s.font = master(sc, s.name); ds.addSource(s)
vf, _, _ = varLib.build(ds)
b = io.BytesIO(); vf.save(b); vfb = b.getvalue()


def max_stack(font):
    top = font["CFF2"].cff.topDictIndex[0]
    counts = [vd.VarRegionCount for vd in top.VarStore.otVarStore.VarData]
    cs = top.CharStrings["star"]; cs.decompile()
    depth = mx = 0; last = None
    for tok in cs.program:
        if isinstance(tok, (int, float)):
            depth += 1; last = tok; mx = max(mx, depth)
        elif tok == "blend":
            depth -= 1 + int(last) * counts[0]
        else:
            depth = 0
    return mx, counts


class Count:
    def __init__(s): s.n = 0
    def moveTo(s, *a): s.n += 1
    def lineTo(s, *a): s.n += 1
    def curveTo(s, *a): s.n += 1
    def qCurveTo(s, *a): s.n += 1
    def closePath(s): pass
    def endPath(s): pass


def segments(data, loc):
    f = hb.Font(hb.Face(hb.Blob(data))); f.set_variations(loc); p = Count(); f.draw_glyph_with_pen(1, p); return p.n


print("built VF: max operand stack %d, regions %s" % max_stack(TTFont(io.BytesIO(vfb))))
LIMITS = {"wght": (300, 450, 700), "wdth": (80, 100, 160)}
inst = instancer.instantiateVariableFont(TTFont(io.BytesIO(vfb)), dict(LIMITS))
b = io.BytesIO(); inst.save(b); ib = b.getvalue()
mx, counts = max_stack(TTFont(io.BytesIO(ib)))
print("instance wght=(300,450,700) wdth=(80,100,160): max operand stack %d, regions %s  -> %s" % (mx, counts, "EXCEEDS the CFF2 limit 513" if mx > 513 else "ok"))
print("HarfBuzz segments of 'star' at wght=600,wdth=100: original %d, instance %d" % (segments(vfb, {"wght": 600, "wdth": 100}), segments(ib, {"wght": 600, "wdth": 100})))
