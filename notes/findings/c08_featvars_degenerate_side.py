"""Witness (C08): FeatureVariations conditions are lost on a side of the new default whose width is below one
F2Dot14 step.  Limits such as wdth=(100, 200, 200.01) are valid; fvar keeps default 200 < max 200.01, so user 200.01
normalises to +1 in the instance, but the library's normalised limits have maximum == default, and
featureVars._limitFeatureVariationConditionRange maps a condition maximum that lies beyond the new maximum through
renormalizeValue(clamped to the new maximum == new default) = 0 instead of +1.  The condition then reads [-1, 0] and is
false at the instance's own maximum, where the original applies the substitution.

Run:  PYTHONPATH=/repo/Lib /venv/bin/python /verif/notes/findings/c08_featvars_degenerate_side.py
"""
import io
from fontTools.ttLib import TTFont
from fontTools.varLib import instancer
import uharfbuzz as hb

f = TTFont(); f.importXML("/repo/Tests/varLib/data/MutatorSans_All_Variable.ttx")
b = io.BytesIO(); f.save(b); orig = b.getvalue()
order = TTFont(io.BytesIO(orig)).getGlyphOrder()
LIM = {"wdth": (100, 200, 200.01), "wght": 900}
inst = instancer.instantiateVariableFont(TTFont(io.BytesIO(orig)), dict(LIM))
b = io.BytesIO(); inst.save(b); ib = b.getvalue()


def shape(data, loc):
    font = hb.Font(hb.Face(hb.Blob(data))); font.set_variations(loc)
    buf = hb.Buffer(); buf.add_str("I"); buf.guess_segment_properties(); hb.shape(font, buf, {})
    return [order[i.codepoint] for i in buf.glyph_infos], list(font.get_var_coords_normalized())


for wdth in (100, 150, 200, 200.01):
    (o, no), (i, ni) = shape(orig, {"wdth": wdth, "wght": 900}), shape(ib, {"wdth": wdth})
    print("wdth=%-7s original %s %s   instance %s %s   %s" % (wdth, o, [round(v * 16384) for v in no], i, [round(v * 16384) for v in ni], "" if o == i else "<-- DIFFERS"))
t = inst["GSUB"].table
print("instance records:", [([(c.AxisIndex, c.FilterRangeMinValue, c.FilterRangeMaxValue) for c in (r.ConditionSet.ConditionTable if r.ConditionSet else [])],
                             [s.Feature.LookupListIndex for s in r.FeatureTableSubstitution.SubstitutionRecord]) for r in t.FeatureVariations.FeatureVariationRecord] if getattr(t, "FeatureVariations", None) else None,
      "default rvrn:", [fr.Feature.LookupListIndex for fr in t.FeatureList.FeatureRecord if fr.FeatureTag == "rvrn"])
