# PYTHONPATH=/repo/Lib:/verif /venv/bin/python /verif/notes/findings/c17_scale_colr_variable_paints.py
# scale_upem on a variable COLRv1 font: every delta of the COLR VarStore is scaled by the generic VarData
# visitor.  That is right for ClipBox format 2, but the variable paint fields live INSIDE the PaintScale
# wrapper scale_upem adds (so their coordinates get scaled twice at non-default locations), and alpha /
# angle / scale deltas are not lengths at all.
import io
import uharfbuzz as hb
from fontTools.ttLib import TTFont
from fontTools.ttLib.scaleUpem import scale_upem
from vmon.gen import c17_fonts           # builds Tests/varLib/data/TestVariableCOLR.designspace with varLib


def trace(data, var, gid):
    font = hb.Font(hb.Face(hb.Blob(data))); font.set_variations(var)
    ev, stack = [], [(1, 0, 0, 1, 0, 0)]
    def mul(m, n):
        a, b, c, d, e, f = m; A, B, C, D, E, F = n
        return (a*A + c*B, b*A + d*B, a*C + c*D, b*C + d*D, a*E + c*F + e, b*E + d*F + f)
    pf = hb.PaintFuncs()
    pf.set_push_transform_func(lambda xx, yx, xy, yy, dx, dy, st: stack.append(mul(stack[-1], (xx, yx, xy, yy, dx, dy))))
    pf.set_pop_transform_func(lambda st: stack.pop())
    pf.set_push_clip_glyph_func(lambda g, st: ev.append(("glyph", g, tuple(round(v, 2) for v in stack[-1][4:]))))
    pf.set_color_func(lambda c, fg, st: ev.append(("alpha", c.alpha)))
    font.paint_glyph(gid, pf)
    return ev

data = c17_fonts.varcolr()
f = TTFont(io.BytesIO(data)); upem = f["head"].unitsPerEm
scale_upem(f, 2 * upem); b = io.BytesIO(); f.save(b)
for name in ("A", "B"):
    gid = f.getGlyphID(name)
    print(name, "wght=700 before:", trace(data, {"wght": 700}, gid))
    print(name, "wght=700 after x2:", trace(b.getvalue(), {"wght": 700}, gid))
# A: translation (100, -120) must become (200, -240); it becomes (400, -240)
# B: alpha 127 must stay 127
