import io, struct, sys
sys.path.insert(0, "/repo/Lib"); sys.path.insert(0, "/verif")
import logging; logging.disable(logging.CRITICAL)
from fontTools.ttLib import TTFont
from vmon.oracle import c01_sfntdir as sd
src = open("/repo/Tests/ttLib/data/TestTTF-Regular.ttx".replace(".ttx", ".ttx"), "rb").read() if False else None
f = TTFont(); f.importXML("/repo/Tests/ttLib/data/TestTTF-Regular.ttx"); b = io.BytesIO(); f.save(b); src = b.getvalue()
ver, _ = sd.directory(src); t = sd.tables(src)
# name format 1: one ordinary record + one record whose langID 0x8000 refers to langTag record 0 ("sr-Latn")
s1, s2, tag = "Test".encode("utf-16-be"), "Probe".encode("utf-16-be"), "sr-Latn".encode("utf-16-be")
recs = [(3, 1, 0x409, 1, s1), (3, 1, 0x8000, 1, s2)]
storage = s1 + s2 + tag
hdr = 6 + 12 * len(recs) + 2 + 4
name = struct.pack(">HHH", 1, len(recs), hdr)
off = 0
for p, e, l, n, s in recs:
    name += struct.pack(">6H", p, e, l, n, len(s), off); off += len(s)
name += struct.pack(">H", 1) + struct.pack(">HH", len(tag), off) + storage
t["name"] = name
data = sd.build(ver, t)
g = TTFont(io.BytesIO(data), recalcTimestamp=False); g["name"]
o = io.BytesIO(); g.save(o)
new = sd.tables(o.getvalue())["name"]
print("format before/after:", struct.unpack(">H", name[:2])[0], struct.unpack(">H", new[:2])[0])
print("records after:", [(r.platformID, hex(r.langID), r.toUnicode()) for r in TTFont(io.BytesIO(o.getvalue()))["name"].names])
print("langTag 'sr-Latn' still in table:", tag in new)
