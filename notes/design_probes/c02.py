import sys, io, random, struct
sys.path.insert(0,'/repo/Lib')
import logging; logging.disable(logging.CRITICAL)
from fontTools.ttLib import TTFont, newTable
from fontTools.ttLib.tables._c_m_a_p import CmapSubtable
from fontTools.ttLib.tables import _g_l_y_f as G
from fontTools.fontBuilder import FontBuilder
from fontTools.pens.ttGlyphPen import TTGlyphPointPen
from fontTools.pens.recordingPen import RecordingPointPen
import uharfbuzz as hb, freetype
class FakeFont:
    def __init__(s,n): s.order=['.notdef']+['g%05d'%i for i in range(1,n)]; s.rev={g:i for i,g in enumerate(s.order)}; s.lazy=None
    def getGlyphOrder(s): return s.order
    def getGlyphID(s,g): return s.rev[g]
    def getReverseGlyphMap(s): return s.rev
    def getGlyphName(s,i): return s.order[i]
    def getGlyphNameMany(s,l): return [s.order[i] for i in l]
    def getGlyphIDMany(s,l): return [s.rev[g] for g in l]
rnd=random.Random(1); bad={}
def B(k,v): bad.setdefault(k,[]).append(v)
# cmap self-inverse across formats
ff=FakeFont(70000)
def gen_map(fmt):
    n=len(ff.order); m={}
    hi = 0xFFFF if fmt in (4,) else 0x10FFFF
    if fmt==0: return {c:ff.order[rnd.randrange(256)] for c in rnd.sample(range(256),rnd.randint(0,256))}
    if fmt==6: 
        s=rnd.randrange(0,0xFF00); return {s+i:ff.order[rnd.randrange(min(n,65535))] for i in range(rnd.randint(0,200)) if rnd.random()<0.9}
    for r in range(rnd.randint(0,12)):
        start=rnd.choice([0,0x20,0xFFF0,0xFF00,0x10000,0x1F600,rnd.randrange(hi)]); L=rnd.choice([1,2,3,50,300,5000 if fmt!=4 else 300])
        g0=rnd.randrange(1,min(n,65535)); mode=rnd.choice(['run','const','rand','wrap'])
        for i in range(L):
            c=start+i
            if c>hi or (fmt==4 and c==0xFFFF and rnd.random()<0.5): continue
            if mode=='run': g=(g0+i)
            elif mode=='const': g=g0
            elif mode=='wrap': g=(65530+i)%65536 if fmt==4 else g0+i
            else: g=rnd.randrange(min(n,65535))
            if g>=min(n,65536): g=g%min(n,65536)
            m[c]=ff.order[g]
    return m
for fmt in (0,4,6,12,13):
    for k in range(300):
        st=CmapSubtable.newSubtable(fmt); st.platformID=3; st.platEncID=10 if fmt>=12 else 1; st.language=0; st.cmap=gen_map(fmt)
        if fmt==13: 
            pass
        try: data=st.compile(ff)
        except Exception as e: B('cmap%d compile exc'%fmt,(repr(e)[:80],len(st.cmap))); continue
        st2=CmapSubtable.newSubtable(fmt); 
        hdr=struct.unpack('>H',data[:2])[0]
        st2.decompileHeader(data,ff); st2.ensureDecompiled() if hasattr(st2,'ensureDecompiled') else None
        try:
            got=st2.cmap
        except Exception as e: B('cmap%d decompile exc'%fmt,repr(e)[:80]); continue
        if got!=st.cmap:
            d=[(hex(c),st.cmap.get(c),got.get(c)) for c in sorted(set(st.cmap)|set(got)) if st.cmap.get(c)!=got.get(c)][:3]
            B('cmap%d mismatch'%fmt,d)
# hmtx trimming via HarfBuzz
for k in range(200):
    n=rnd.randint(1,40); names=['.notdef']+['g%d'%i for i in range(1,n)]
    fb=FontBuilder(1000,isTTF=True); fb.setupGlyphOrder(names); fb.setupCharacterMap({})
    pen=TTGlyphPointPen(None); g=pen.glyph()
    fb.setupGlyf({x:g for x in names})
    tail=rnd.randint(0,n); adv=[rnd.choice([0,1,500,65535]) for _ in range(n-tail)]+[rnd.choice([0,700,65535])]*tail
    met={x:(adv[i],rnd.choice([0,-5,7,-32768,32767])) for i,x in enumerate(names)}
    fb.setupHorizontalMetrics(met); fb.setupHorizontalHeader(); fb.setupNameTable({}); fb.setupPost()
    b=io.BytesIO(); fb.font.recalcBBoxes=False; fb.save(b); data=b.getvalue()
    hf=hb.Font(hb.Face(hb.Blob(data)))
    t=TTFont(io.BytesIO(data))
    for i,x in enumerate(names):
        if hf.get_glyph_h_advance(i)!=met[x][0]: B('hmtx adv',(adv,i,hf.get_glyph_h_advance(i)))
        if t['hmtx'][x]!=met[x]: B('hmtx self',(x,met[x],t['hmtx'][x]))
# glyf simple glyph coordinates/flags
for k in range(1500):
    pen=TTGlyphPointPen(None); pts=[]
    for c in range(rnd.randint(1,3)):
        pen.beginPath(); m=rnd.randint(1,40 if rnd.random()<0.9 else 400); cont=[]
        base=(rnd.choice([0,-16384,16383,100]),rnd.choice([0,255,256,-255,-256]))
        x,y=base
        for i in range(m):
            step=rnd.choice([0,0,1,-1,255,-255,256,-256,1000])
            if rnd.random()<0.5: x=max(-16384,min(16383,x+step))
            if rnd.random()<0.5: y=max(-16384,min(16383,y+rnd.choice([0,0,3,-3,255,256,-256])))
            on=rnd.random()<0.7
            cont.append(((x,y),on)); pen.addPoint((x,y),'line' if on else None)
        pen.endPath(); pts.append(cont)
    g=pen.glyph(dropImpliedOnCurves=False)
    class GT: pass
    glyf=newTable('glyf'); glyf.glyphs={'a':g}; glyf.glyphOrder=['a']
    g.recalcBounds(glyf)
    data=g.compile(glyf)
    g2=G.Glyph(data); g2.expand(glyf)
    c1=list(g.coordinates); c2=list(g2.coordinates)
    if c1!=c2 or list(g.flags&1 for g in [])!=[] or [f&1 for f in g.flags]!=[f&1 for f in g2.flags] or g.endPtsOfContours!=g2.endPtsOfContours:
        B('glyf self',(pts[0][:4],c1[:4],c2[:4]))
for k,v in bad.items(): print(k,len(v),v[0])
print('done')
