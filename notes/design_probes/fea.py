import sys, io
sys.path.insert(0,'/repo/Lib')
from fontTools.fontBuilder import FontBuilder
from fontTools.feaLib.builder import addOpenTypeFeaturesFromString
from fontTools.pens.ttGlyphPen import TTGlyphPen
import uharfbuzz as hb, os
os.environ['SOURCE_DATE_EPOCH']='0'
names=['.notdef']+list('abcdefghij')+['f_i','a.alt1','a.alt2','acute','grave']
fb=FontBuilder(1000,isTTF=True); fb.setupGlyphOrder(names)
cmap={0xF0000+i:n for i,n in enumerate(names)}
fb.setupCharacterMap(cmap)
pen=TTGlyphPen(None); pen.moveTo((0,0)); pen.lineTo((100,0)); pen.lineTo((100,100)); pen.closePath(); g=pen.glyph()
fb.setupGlyf({n:g for n in names}); fb.setupHorizontalMetrics({n:(500+10*i,0) for i,n in enumerate(names)})
fb.setupHorizontalHeader(ascent=800,descent=-200); fb.setupNameTable({'familyName':'T','styleName':'R'}); fb.setupOS2(); fb.setupPost()
fea='''
languagesystem DFLT dflt;
markClass [acute grave] <anchor 100 500> @TOP;
lookup L0 { sub a by b; } L0;
lookup L1 { sub b by c; } L1;
lookup L2 { sub f i by f_i; } L2;
lookup L3 { sub a from [a.alt1 a.alt2]; } L3;
lookup L4 { sub d by e f; } L4;
feature tst1 { lookup L0; lookup L1; } tst1;
feature tst2 { lookup L1; } tst2;
feature tst3 { lookup L2; lookup L4; sub g' h by i; } tst3;
feature tst4 { lookup L3; } tst4;
feature tst5 { pos a b -50; pos [c d] [e f] 30; pos g <10 20 30 40>; } tst5;
feature tst6 { pos base a <anchor 250 450> mark @TOP; } tst6;
'''
addOpenTypeFeaturesFromString(fb.font, fea)
b=io.BytesIO(); fb.save(b); data=b.getvalue()
font=hb.Font(hb.Face(hb.Blob(data)))
def shape(s, feats):
    buf=hb.Buffer(); buf.add_codepoints([0xF0000+names.index(n) for n in s]); buf.direction='ltr'; buf.script='DFLT' if False else 'Zyyy'; buf.language='dflt'
    buf.guess_segment_properties()
    hb.shape(font,buf,feats)
    return [(names[i.codepoint],p.x_advance,p.y_advance,p.x_offset,p.y_offset) for i,p in zip(buf.glyph_infos,buf.glyph_positions)]
print(shape(['a'],{'tst1':True}))
print(shape(['a'],{'tst2':True}))
print(shape(['f','i','d'],{'tst3':True}), shape(['g','h','g'],{'tst3':True}))
print(shape(['a'],{'tst4':2}))
print(shape(['a','b','c','f','g'],{'tst5':True}))
print(shape(['a','acute','grave'],{'tst6':True}))
print(shape(['a','acute'],{}))
