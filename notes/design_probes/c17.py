import sys, io, glob, os, json, random
sys.path.insert(0, '/repo/Lib')
from fontTools.ttLib import TTFont
from fontTools.ttLib.reorderGlyphs import reorderGlyphs
from fontTools.ttLib.scaleUpem import scale_upem
from fontTools.pens.recordingPen import RecordingPen
import uharfbuzz as hb
import logging; logging.disable(logging.CRITICAL)
def load(f):
    if f.endswith('.ttx'):
        a=TTFont(recalcTimestamp=False); a.importXML(f); b=io.BytesIO(); a.save(b); b.seek(0); return TTFont(b)
    return TTFont(f)
def shape(font, text, order):
    buf=hb.Buffer(); buf.add_codepoints(text); buf.guess_segment_properties(); hb.shape(font,buf,{})
    return [(order[i.codepoint], p.x_advance,p.y_advance,p.x_offset,p.y_offset) for i,p in zip(buf.glyph_infos,buf.glyph_positions)]
def pts(font,gid):
    p=RecordingPen(); font.draw_glyph_with_pen(gid,p); return p.value
files=[f for f in json.load(open('/tmp/probe/ttx_ok.json')) if ('/subset/data/' in f and 'expect' not in f) or '/ttLib/data/' in f or 'fontBuilder/data' in f] + ['/repo/Tests/ttLib/data/IBMPlexSans-Bold.subset.otf','/repo/Tests/ttLib/data/TestVGID-Regular.otf']
rnd=random.Random(7); tot=bad=0
for f in files:
    try:
        font=load(f)
        if 'cmap' not in font or 'hmtx' not in font or not('glyf' in font or 'CFF ' in font or 'CFF2' in font): continue
        if font['post'].formatType==3 and 'CFF ' not in font: 
            pass
        b=io.BytesIO(); font.save(b); orig=b.getvalue()
        f2=TTFont(io.BytesIO(orig)); order=f2.getGlyphOrder()[:]
        neworder=order[1:]; rnd.shuffle(neworder); neworder=[order[0]]+neworder
        try:
            reorderGlyphs(f2,neworder)
            b2=io.BytesIO(); f2.save(b2); new=b2.getvalue()
        except Exception as e:
            print('REORDEREXC', os.path.basename(f), type(e).__name__, str(e)[:150]); continue
        f3=TTFont(io.BytesIO(new)); 
        if f3.getGlyphOrder()!=neworder and f2['post'].formatType!=3 : print('ORDERLOST', os.path.basename(f))
        of=hb.Font(hb.Face(hb.Blob(orig))); nf=hb.Font(hb.Face(hb.Blob(new)))
        cps=sorted(font.getBestCmap() or {})
        nb=0
        for name in order:
            tot+=1
            if pts(of,order.index(name))!=pts(nf,neworder.index(name)) or of.get_glyph_h_advance(order.index(name))!=nf.get_glyph_h_advance(neworder.index(name)): nb+=1
        for t in range(50):
            if not cps: break
            text=[rnd.choice(cps) for _ in range(rnd.randint(1,5))]
            tot+=1
            if shape(of,text,order)!=shape(nf,text,neworder): nb+=1; print('SHAPEDIFF', os.path.basename(f), text, shape(of,text,order), shape(nf,text,neworder)) if nb<3 else None
        if nb: print('BAD', os.path.basename(f), nb); bad+=nb
    except Exception as e:
        print('EXC', f, type(e).__name__, str(e)[:200])
print(tot,bad)
