import sys, io, glob, os, json
sys.path.insert(0, '/repo/Lib')
from fontTools.ttLib import TTFont
import logging; logging.disable(logging.CRITICAL)
files = sorted(glob.glob('/repo/Tests/**/*.[ot]tf', recursive=True)) + json.load(open('/tmp/probe/ttx_ok.json'))
n=0
def tables(font):
    b = io.BytesIO(); font.save(b); b.seek(0); r = TTFont(b, lazy=True)
    return {t: r.reader[t] for t in r.reader.keys()}
for f in files:
    try:
        if f.endswith('.ttx'):
            a0 = TTFont(recalcTimestamp=False, recalcBBoxes=False); a0.importXML(f)
            b0 = io.BytesIO(); a0.save(b0); b0.seek(0)
            a = TTFont(b0, lazy=False, recalcTimestamp=False, recalcBBoxes=False)
        else:
            a = TTFont(f, lazy=False, recalcTimestamp=False, recalcBBoxes=False)
        s = io.StringIO(); a.saveXML(s)
        ref = tables(a)
        b = TTFont(recalcTimestamp=False, recalcBBoxes=False); b.importXML(io.StringIO(s.getvalue()))
        got = tables(b)
        bad=[(t, len(ref[t]), len(got.get(t,b''))) for t in ref if ref[t]!=got.get(t) and t!='head']
        if set(ref)!=set(got): bad.append(('TAGS', sorted(set(ref)^set(got))))
        n+=1
        if bad: print('DIFF', f, bad)
    except Exception as e:
        print('EXC', f, type(e).__name__, str(e)[:100])
print('done', n, len(files))
