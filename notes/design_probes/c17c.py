import sys, io, random
sys.path.insert(0, '/repo/Lib')
from fontTools.ttLib import TTFont
from fontTools.ttLib.reorderGlyphs import reorderGlyphs
from fontTools.pens.recordingPen import RecordingPen
import uharfbuzz as hb
import logging; logging.disable(logging.CRITICAL)
a=TTFont(recalcTimestamp=False); a.importXML('/repo/Tests/fontBuilder/data/test_var.otf.ttx'); b=io.BytesIO(); a.save(b); orig=b.getvalue()
f2=TTFont(io.BytesIO(orig)); order=f2.getGlyphOrder()[:]
print('post fmt', f2['post'].formatType)
neworder=['.notdef','.null','a','A']
reorderGlyphs(f2,neworder); 
td=f2['CFF2'].cff.topDictIndex[0]
print(td.charset, list(td.CharStrings.charStrings.items()), td.CharStrings.charStringsAreIndexed)
b2=io.BytesIO(); f2.save(b2); new=b2.getvalue()
of=hb.Font(hb.Face(hb.Blob(orig))); nf=hb.Font(hb.Face(hb.Blob(new)))
for fnt in (of,nf):
    g=fnt.get_nominal_glyph(0x41); p=RecordingPen(); fnt.draw_glyph_with_pen(g,p); print('U+41 ->',g,p.value[:2], fnt.get_glyph_h_advance(g))
g=TTFont(io.BytesIO(new)); print(g.getGlyphOrder(), g.getBestCmap(), g['hmtx'].metrics)
