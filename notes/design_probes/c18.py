import sys, io, os, tempfile, shutil, random
sys.path.insert(0,'/repo/Lib')
import logging; logging.disable(logging.CRITICAL)
from fontTools.ttLib import TTFont
from fontTools import subset
from fontTools.merge import Merger
from fontTools.pens.recordingPen import RecordingPen
import uharfbuzz as hb
d=tempfile.mkdtemp()
src='/repo/Tests/ttLib/data/IBMPlexSans-Bold.subset.otf'
for src in ['/repo/Tests/ttLib/data/IBMPlexSans-Bold.subset.otf','/repo/Tests/subset/data/Lobster.subset.ttx','/repo/Tests/subset/data/TestTTF-Regular.ttx' ]:
  try:
    if src.endswith('.ttx'):
        a=TTFont(); a.importXML(src); b=io.BytesIO(); a.save(b); data=b.getvalue()
    else: data=open(src,'rb').read()
    f=TTFont(io.BytesIO(data)); cps=sorted(f.getBestCmap()); print(src, len(cps), sorted(f.keys()))
    half=len(cps)//2; parts=[cps[:half], cps[half:]]
    paths=[]
    for i,p in enumerate(parts):
        g=TTFont(io.BytesIO(data)); o=subset.Options(); o.layout_features=['*']; o.glyph_names=True; o.notdef_outline=True
        s=subset.Subsetter(o); s.populate(unicodes=p); s.subset(g); pth=os.path.join(d,'p%d.%s'%(i,'otf' if 'CFF ' in g else 'ttf')); g.save(pth); paths.append(pth)
    m=Merger().merge(paths); mp=os.path.join(d,'m.ttf'); m.save(mp)
    mf=hb.Font(hb.Face(hb.Blob.from_file_path(mp)))
    names=TTFont(mp).getGlyphOrder(); print('unique names', len(names)==len(set(names)))
    bad=0
    for i,p in enumerate(parts):
        pf=hb.Font(hb.Face(hb.Blob.from_file_path(paths[i])))
        for c in p:
            g1=pf.get_nominal_glyph(c); g2=mf.get_nominal_glyph(c)
            a=RecordingPen(); pf.draw_glyph_with_pen(g1,a); b=RecordingPen(); mf.draw_glyph_with_pen(g2,b)
            if a.value!=b.value or pf.get_glyph_h_advance(g1)!=mf.get_glyph_h_advance(g2): bad+=1
        rnd=random.Random(1)
        for t in range(200):
            text=[rnd.choice(p) for _ in range(rnd.randint(1,4))]
            def sh(font):
                buf=hb.Buffer(); buf.add_codepoints(text); buf.guess_segment_properties(); hb.shape(font,buf,{}); return [(pp.x_advance,pp.x_offset,pp.y_offset) for pp in buf.glyph_positions]
            if sh(pf)!=sh(mf): bad+=1
    print('bad',bad)
  except Exception as e:
    import traceback; traceback.print_exc()
shutil.rmtree(d)
