import sys, random, math
sys.path.insert(0,'/repo/Lib')
from fontTools.pens.recordingPen import RecordingPen, RecordingPointPen
from fontTools.pens.pointPen import SegmentToPointPen, PointToSegmentPen, ReverseContourPointPen
from fontTools.pens.reverseContourPen import ReverseContourPen
from fontTools.pens.transformPen import TransformPen
from fontTools.pens.areaPen import AreaPen
from fontTools.pens.boundsPen import BoundsPen, ControlBoundsPen
from fontTools.pens.ttGlyphPen import TTGlyphPen
from fontTools.pens.t2CharStringPen import T2CharStringPen
from fontTools.pens.basePen import decomposeQuadraticSegment, decomposeSuperBezierSegment
from fontTools.misc.transform import Transform
exec(open('/tmp/probe/c05.py').read().split("files = sorted")[0].split("def canon")[1].join(["def canon",""]) if False else "")
def canon(rec):
    contours=[]; cur=None; start=None; pt=None
    for op,args in rec:
        if op=='moveTo':
            if cur is not None: contours.append((cur,False))
            cur=[]; start=pt=args[0]
        elif op=='lineTo':
            if args[0]!=pt: cur.append(('l',pt,args[0]))
            pt=args[0]
        elif op=='qCurveTo':
            if args[-1] is None:
                offs=list(args[:-1]); s=((offs[-1][0]+offs[0][0])/2,(offs[-1][1]+offs[0][1])/2)
                cur=[]; start=pt=s; segs=decomposeQuadraticSegment(offs+[s])
            elif len(args)==1:
                if args[0]!=pt: cur.append(('l',pt,args[0]))
                pt=args[0]; continue
            else: segs=decomposeQuadraticSegment(args)
            for c,e in segs: cur.append(('q',pt,c,e)); pt=e
        elif op=='curveTo':
            if len(args)==1:
                if args[0]!=pt: cur.append(('l',pt,args[0]))
                pt=args[0]; continue
            if len(args)==2:
                cur.append(('q',pt,args[0],args[1])); pt=args[1]; continue
            for c1,c2,e in decomposeSuperBezierSegment(args): cur.append(('c',pt,c1,c2,e)); pt=e
        elif op=='closePath':
            if pt!=start: cur.append(('l',pt,start))
            contours.append((cur,True)); cur=None
        elif op=='endPath':
            contours.append((cur,False)); cur=None
    return contours
def cyc_eq(a,b,closed,tol=1e-9):
    def se(s,t): return s[0]==t[0] and all(abs(x-y)<=tol for p,q in zip(s[1:],t[1:]) for x,y in zip(p,q))
    if len(a)!=len(b): return False
    if not closed: return all(se(x,y) for x,y in zip(a,b))
    n=len(a)
    return n==0 or any(all(se(a[i],b[(i+r)%n]) for i in range(n)) for r in range(n))
def same(A,B,tol=1e-9):
    return len(A)==len(B) and all(ca==cb and cyc_eq(a,b,ca,tol) for (a,ca),(b,cb) in zip(A,B))
def rev(seg):
    return (seg[0],)+tuple(reversed(seg[1:]))
def gen(rnd, quad_only=False, closed_only=False, integer=True):
    rec=[]
    for c in range(rnd.randint(1,3)):
        P=lambda:(rnd.randint(-50,50),rnd.randint(-50,50)) if integer else (rnd.uniform(-50,50),rnd.uniform(-50,50))
        closed=closed_only or rnd.random()<0.7
        if closed and rnd.random()<0.1 and True:
            rec.append(('qCurveTo',tuple(P() for _ in range(rnd.randint(2,5)))+(None,))); rec.append(('closePath',())); continue
        start=P(); rec.append(('moveTo',(start,)))
        for s in range(rnd.randint(0,5)):
            k=rnd.random()
            if k<0.4: rec.append(('lineTo',(P(),)))
            elif k<0.7 or quad_only: rec.append(('qCurveTo',tuple(P() for _ in range(rnd.randint(1,4)))))
            else: rec.append(('curveTo',tuple(P() for _ in range(rnd.choice([3,3,3,4,5])))))
        if closed and rnd.random()<0.3 and len(rec)>1 and rec[-1][0]!='moveTo': rec.append(('lineTo',(start,)))
        rec.append(('closePath' if closed else 'endPath',()))
    return rec
def replay(rec,pen):
    for op,a in rec: getattr(pen,op)(*a)
rnd=random.Random(4); bad={}; n=0
for k in range(20000):
    rec=gen(rnd); A=canon(rec); n+=1
    # seg->point->seg
    out=RecordingPen(); replay(rec, PointToSegmentPen(out).__class__ and _p2s) if False else None
    out=RecordingPen(); sp=SegmentToPointPen(PointToSegmentPen(out)); replay(rec,sp)
    if not same(A,canon(out.value)): bad.setdefault('seg-point-seg',[]).append((rec,out.value))
    # reverse twice
    out=RecordingPen(); replay(rec, ReverseContourPen(ReverseContourPen(out)))
    if not same(A,canon(out.value)): bad.setdefault('rev-rev',[]).append((rec,out.value))
    # reverse once: geometry reversed
    out=RecordingPen(); replay(rec, ReverseContourPen(out)); R=canon(out.value)
    exp=[([rev(s) for s in reversed(c)],cl) for c,cl in A]
    if not same(exp,R): bad.setdefault('rev',[]).append((rec,out.value))
    if all(cl for _,cl in A):
        a1=AreaPen(); replay(rec,a1); a2=AreaPen(); replay(out.value,a2)
        if abs(a1.value+a2.value)>1e-6: bad.setdefault('area-neg',[]).append((rec,a1.value,a2.value))
    # transform
    t=Transform(rnd.choice([1,2,-1,0.5]),rnd.choice([0,1]),rnd.choice([0,-1]),rnd.choice([1,3]),rnd.randint(-9,9),rnd.randint(-9,9))
    out=RecordingPen(); replay(rec,TransformPen(out,t))
    exp=[([ (s[0],)+tuple(t.transformPoint(p) for p in s[1:]) for s in c],cl) for c,cl in A]
    if not same(exp,canon(out.value),1e-9): bad.setdefault('transform',[]).append((rec,t))
    # bounds consistency
    bp=BoundsPen(None); replay(rec,bp); cb=ControlBoundsPen(None); replay(rec,cb)
    if bp.bounds and cb.bounds:
        if not (cb.bounds[0]<=bp.bounds[0]+1e-9 and cb.bounds[1]<=bp.bounds[1]+1e-9 and cb.bounds[2]>=bp.bounds[2]-1e-9 and cb.bounds[3]>=bp.bounds[3]-1e-9): bad.setdefault('bounds',[]).append(rec)
for k in range(5000):
    rec=gen(rnd,quad_only=True,closed_only=True); A=canon(rec)
    pen=TTGlyphPen(None); replay(rec,pen)
    try: g=pen.glyph()
    except Exception as e: bad.setdefault('ttglyph exc',[]).append((rec,repr(e))); continue
    out=RecordingPen(); g.draw(out,None); B=canon(out.value)
    A2=[(c,cl) for c,cl in A if len(c)>0]
    if not same(A2,B): bad.setdefault('ttglyph',[]).append((rec,out.value))
for k,v in bad.items(): print(k,len(v)); print('   ',v[0])
print(n,'done')
