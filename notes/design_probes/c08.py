import sys, io, glob, os, json, random, math
sys.path.insert(0, '/repo/Lib')
from fontTools.ttLib import TTFont
from fontTools.varLib import instancer
from fontTools.pens.recordingPen import RecordingPen
import uharfbuzz as hb
import logging; logging.disable(logging.CRITICAL)
def load(f):
    if f.endswith('.ttx'):
        a=TTFont(recalcTimestamp=False); a.importXML(f); b=io.BytesIO(); a.save(b); b.seek(0); return TTFont(b)
    return TTFont(f)
def pts(font,gid):
    p=RecordingPen(); font.draw_glyph_with_pen(gid,p)
    return [(op,[c for pt in a for c in pt]) for op,a in p.value]
def maxdiff(A,B):
    if [a[0] for a in A]!=[b[0] for b in B]: return None
    m=0
    for (o,a),(o2,b) in zip(A,B):
        if len(a)!=len(b): return None
        for x,y in zip(a,b): m=max(m,abs(x-y))
    return m
files=[f for f in json.load(open('/tmp/probe/ttx_ok.json')) if ('instancer/data/' in f and 'test_results' not in f) or 'varLib/data/Test' in f or 'master_ttx_varfont' in f]+['/repo/Tests/ttLib/data/I.otf']
print(len(files))
rnd=random.Random(5)
tot=0; worst={}
for f in files:
    try:
        vf=load(f)
        if 'fvar' not in vf: continue
        if not('glyf' in vf or 'CFF2' in vf): continue
        b=io.BytesIO(); vf.save(b); orig=b.getvalue()
        axes=vf['fvar'].axes
        for trial in range(4):
            lim={}
            for a in axes:
                r=rnd.random()
                if r<0.3: lim[a.axisTag]=rnd.choice([a.minValue,a.defaultValue,a.maxValue,rnd.uniform(a.minValue,a.maxValue)])
                elif r<0.7:
                    lo=rnd.uniform(a.minValue,a.maxValue); hi=rnd.uniform(lo,a.maxValue)
                    if rnd.random()<0.5 and lo<=a.defaultValue<=hi: lim[a.axisTag]=(lo,hi)
                    else: lim[a.axisTag]=(lo,rnd.uniform(lo,hi),hi)
            if not lim: continue
            try:
                inst=instancer.instantiateVariableFont(TTFont(io.BytesIO(orig)), lim)
            except Exception as e:
                print('INSTEXC', os.path.basename(f), lim, type(e).__name__, str(e)[:150]); continue
            b2=io.BytesIO(); inst.save(b2)
            of=hb.Font(hb.Face(hb.Blob(orig))); nf=hb.Font(hb.Face(hb.Blob(b2.getvalue())))
            for s in range(4):
                loc={}; nloc={}
                for a in axes:
                    l=lim.get(a.axisTag)
                    if l is None: v=rnd.uniform(a.minValue,a.maxValue); loc[a.axisTag]=v; nloc[a.axisTag]=v
                    elif isinstance(l,tuple): v=rnd.uniform(l[0],l[-1]); loc[a.axisTag]=v; nloc[a.axisTag]=v
                    else: loc[a.axisTag]=l
                of.set_variations(loc); nf.set_variations(nloc)
                for gid in range(of.face.glyph_count):
                    d=maxdiff(pts(of,gid),pts(nf,gid)); tot+=1
                    da=abs(of.get_glyph_h_advance(gid)-nf.get_glyph_h_advance(gid))
                    if d is None or d>1.0 or da>1:
                        key=(os.path.basename(f))
                        if worst.get(key,0) is not None and (d is None or d>worst.get(key,0)):
                            worst[key]=d
                            print('DIFF', os.path.basename(f), lim, loc, gid, d, da)
    except Exception as e:
        import traceback; traceback.print_exc()
        print('EXC', f, type(e).__name__, str(e)[:200])
print('total',tot)
