import sys, itertools
sys.path.insert(0,'/repo/Lib')
from fractions import Fraction as F
from fontTools.varLib.instancer.solver import rebaseTent
from fontTools.varLib.instancer import NormalizedAxisTripleAndDistances as NA
def tent(x,t):
    if t is None: return F(1)
    l,p,u=t
    if x==p: return F(1)
    if x<=l or x>=u: return F(0)
    if x<p: return (x-l)/(p-l)
    return (u-x)/(u-p)
def renorm(v,lim):
    lo,d,hi,dn,dp=lim
    if v==d: return F(0)
    if d<0:
        return -renorm(-v,(-hi,-d,-lo,dp,dn))
    if v>d: return (v-d)/(hi-d)
    if lo>=0: return (v-d)/(d-lo)
    tot=dn*-lo+dp*d
    vd=(d-v)*dp if v>=0 else -v*dn+dp*d
    return -vd/tot
G=[F(i,4) for i in range(-4,5)]
G2=[F(i,4) for i in range(-8,9)]
n=0; bad=0; worst=0
for l,p,u in itertools.product(G2,G2,G2):
    if not(l<=p<=u) or p==0 or (l<0<u): continue
    if not (-2<=l and u<=2): continue
    if (p==u and u<1) or (l==p and l>-1): continue  # discontinuous on [-1,1]
    for lo,d,hi in itertools.product(G,G,G):
        if not(lo<=d<=hi): continue
        for dn,dp in ((1,1),(2,1),(1,3)):
            lim=NA(float(lo),float(d),float(hi),dn,dp)
            try: sols=rebaseTent((float(l),float(p),float(u)),lim)
            except AssertionError: continue
            n+=1
            limF=(lo,d,hi,F(dn),F(dp))
            pts=[lo+(hi-lo)*F(k,16) for k in range(17)] if hi>lo else [lo]
            for x in pts:
                want=tent(x,(l,p,u))-tent(d,(l,p,u))  # value relative to new default
                xn=renorm(x,limF)
                got=sum(F(s)*tent(xn,tuple(F(v) for v in t) if t is not None else None) if False else s*float(tent(xn,tuple(F(v).limit_denominator(1<<20) for v in t) if t is not None else None)) for s,t in sols)
                # gain (None tent) applies to default; so value at x = sum all; at default = sum of None-tents
                base=sum(s for s,t in sols if t is None)
                err=abs((got-base)-float(want))
                if err>1e-9:
                    bad+=1; worst=max(worst,err)
                    if bad<8: print('BAD',(l,p,u),(lo,d,hi,dn,dp),x,float(want),got-base,sols)
print(n,bad,worst)
