import sys, io, glob, os
sys.path.insert(0, '/repo/Lib')
import logging; logging.disable(logging.CRITICAL)
from fontTools.ttLib import TTFont
from fontTools.pens.recordingPen import RecordingPen
from fontTools.cffLib.specializer import specializeProgram, generalizeProgram, programToCommands, commandsToProgram, specializeCommands, generalizeCommands
from fontTools.misc.psCharStrings import T2CharString
import copy
def draw(cs):
    p=RecordingPen(); cs.draw(p); return p.value, cs.width
tot=bad=0
for f in ['/repo/Tests/cffLib/data/LinLibertine_RBI.otf','/repo/Tests/ttLib/data/IBMPlexSans-Bold.subset.otf','/repo/Tests/ttLib/data/TestVGID-Regular.otf','/repo/Tests/subset/data/google_color.ttx']+glob.glob('/repo/Tests/ttLib/tables/data/aots/cmap*_font1.otf')[:3]:
    if f.endswith('.ttx'): continue
    font=TTFont(f)
    if 'CFF ' not in font: continue
    cff=font['CFF '].cff; cff.desubroutinize()
    td=cff.topDictIndex[0]; css=td.CharStrings
    for name in css.keys():
        cs=css[name]; cs.decompile()
        ref=draw(cs)
        prog=list(cs.program)
        for kind in ('gen','spec','spec_gen', 'spec_max'):
            try:
                if kind=='gen': np_=generalizeProgram(prog)
                elif kind=='spec': np_=specializeProgram(prog)
                elif kind=='spec_gen': np_=specializeProgram(prog, generalizeFirst=False)
                else: np_=specializeProgram(prog, maxstack=20)
            except Exception as e:
                print('EXC', f, name, kind, type(e).__name__, e); bad+=1; continue
            cs2=T2CharString(program=np_, private=cs.private, globalSubrs=cs.globalSubrs)
            got=draw(cs2); tot+=1
            # compare with tolerance
            def flat(v): return [(op,[round(c,3) for pt in a for c in pt]) for op,a in v]
            if flat(got[0])!=flat(ref[0]) or got[1]!=ref[1]:
                bad+=1
                if bad<10: print('DIFF', os.path.basename(f), name, kind, prog[:30], np_[:30])
print(tot,bad)
