import sys, io, glob, os, hashlib
sys.path.insert(0, '/repo/Lib'); sys.path.insert(0, '/repo/Tests/feaLib')
import logging; logging.disable(logging.CRITICAL)
from builder_test import makeTTFont
from fontTools.feaLib.builder import addOpenTypeFeatures
from fontTools.fontBuilder import addFvar
out={}
for f in sorted(glob.glob('/repo/Tests/feaLib/data/*.fea')):
    try:
        font = makeTTFont()
        if 'variable' in f: addFvar(font, [("wght", 200, 200, 1000, "Weight"),("wdth", 100, 100, 200, "Width")], [])
        addOpenTypeFeatures(font, f)
        h = hashlib.sha256()
        for t in sorted(font.keys()):
            if t=='GlyphOrder': continue
            h.update(t.encode()); h.update(font.getTableData(t))
        out[os.path.basename(f)] = h.hexdigest()[:12]
    except Exception as e:
        out[os.path.basename(f)] = 'EXC:'+type(e).__name__
import json; print(json.dumps(out, sort_keys=True))
