import sys, random, string
sys.path.insert(0,'/repo/Lib')
from fontTools.misc.filenames import userNameToFileName, illegalCharacters, reservedFileNames, maxFileNameLength
rnd=random.Random(2); bad=0; tot=0
alph=list('aAbB_.-*/ :é')+['K','con','aux','\x7f','İ','ß','ǅ']
def legal(fn):
    if len(fn)>255: return 'len%d'%len(fn)
    if any(c in illegalCharacters for c in fn): return 'illegalchar'
    parts=fn.lower().split('.')
    if any(p in reservedFileNames for p in parts): return 'reserved'
    return None
for trial in range(2000):
    existing=[]; seen=set()
    long_prefix=''.join(rnd.choice('ab') for _ in range(250))
    for i in range(rnd.randint(2,40)):
        r=rnd.random()
        if r<0.2: name=long_prefix+''.join(rnd.choice('abAB') for _ in range(rnd.randint(0,30)))
        elif r<0.3 and existing: name=rnd.choice(existing)  # name equal to a generated filename
        else: name=''.join(rnd.choice(alph) for _ in range(rnd.randint(1,6)))
        try:
            fn=userNameToFileName(name, existing=existing, suffix='.glif')
        except Exception as e:
            bad+=1; print('EXC',repr(name),type(e).__name__,e); continue
        tot+=1
        why=legal(fn)
        if fn.lower() in seen: why='clash'
        if fn.casefold() in {s.casefold() for s in seen} and not why: why='casefold-clash'
        if why:
            bad+=1
            if bad<12: print(why, repr(name), repr(fn))
        seen.add(fn.lower()); existing.append(fn.lower())
print(tot,bad)
