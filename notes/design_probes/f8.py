import sys, os, tempfile
sys.path.insert(0,'/repo/Lib')
from fontTools.ttLib import TTCollection, TTFont
import logging; logging.disable(logging.CRITICAL)
d=tempfile.mkdtemp(); p=os.path.join(d,'x.ttc')
open(p,'wb').write(b'PRECIOUS'*10)
c=TTCollection('/repo/Tests/ttx/data/TestTTC.ttc')
t=c.fonts[0]['name']
def boom(font): raise RuntimeError('injected')
t.compile=boom
try: c.save(p)
except Exception as e: print('raised', type(e).__name__)
print(open(p,'rb').read()[:20], os.path.getsize(p))
f=TTFont('/repo/Tests/ttx/data/TestTTF.ttf'); p2=os.path.join(d,'y.ttf'); open(p2,'wb').write(b'PRECIOUS'*10)
f['name'].compile=boom
try: f.save(p2)
except Exception as e: print('raised', type(e).__name__)
print(open(p2,'rb').read()[:20])
import shutil; shutil.rmtree(d)
