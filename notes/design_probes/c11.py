import sys, io, glob, os, hashlib
sys.path.insert(0, '/repo/Lib'); sys.path.insert(0, '/repo/Tests/feaLib')
import logging; logging.disable(logging.CRITICAL)
os.environ['SOURCE_DATE_EPOCH']='0'
from builder_test import makeTTFont
from fontTools.feaLib.builder import addOpenTypeFeatures, addOpenTypeFeaturesFromString, Builder
from fontTools.feaLib.parser import Parser
from fontTools.fontBuilder import addFvar
def tabs(font):
    return {t: font.getTableData(t) for t in sorted(font.keys()) if t!='GlyphOrder'}
def mk(f):
    font = makeTTFont()
    if 'variable' in f: addFvar(font, [("wght", 200, 200, 1000, "Weight"),("wdth", 100, 100, 200, "Width")], [])
    return font
ok=bad=0
for f in sorted(glob.glob('/repo/Tests/**/*.fea', recursive=True)):
    try:
        font=mk(f)
        doc=Parser(f, font.getReverseGlyphMap()).parse()
    except Exception as e:
        continue
    try:
        t1=doc.asFea()
        doc2=Parser(io.StringIO(t1), font.getReverseGlyphMap()).parse()
        t2=doc2.asFea()
        fx = (t1==t2)
        f1=mk(f); addOpenTypeFeatures(f1, f); a=tabs(f1)
        f2=mk(f); 
        # includes are resolved in asFea? compile from string with filename for include dir
        addOpenTypeFeaturesFromString(f2, t1, filename=f); b=tabs(f2)
        same = a==b
        if not fx or not same:
            bad+=1; print('DIFF', f.replace('/repo/Tests/',''), 'fixedpoint', fx, 'tables', same, [t for t in set(a)|set(b) if a.get(t)!=b.get(t)])
        else: ok+=1
    except Exception as e:
        print('EXC', f.replace('/repo/Tests/',''), type(e).__name__, str(e)[:120])
print(ok,bad)
