import sys, io, difflib
sys.path.insert(0, '/repo/Lib')
from fontTools.ttLib import TTFont
from fontTools.misc.xmlWriter import XMLWriter
import logging; logging.disable(logging.CRITICAL)
def dumpb(data, tag, base):
    b=io.BytesIO(data); f=TTFont(b); s = io.StringIO(); w = XMLWriter(s); f._tableToXML(w, tag); w.close(); return s.getvalue()
f = sys.argv[1]
a = TTFont(recalcTimestamp=False); a.importXML(f)
b1 = io.BytesIO(); a.save(b1)
b2 = io.BytesIO(); a.save(b2)
b3 = io.BytesIO(); a.save(b3)
x=TTFont(io.BytesIO(b1.getvalue()),lazy=True); y=TTFont(io.BytesIO(b2.getvalue()),lazy=True); z=TTFont(io.BytesIO(b3.getvalue()),lazy=True)
print(len(x.reader['CFF2']), len(y.reader['CFF2']), len(z.reader['CFF2']), y.reader['CFF2']==z.reader['CFF2'])
d1=dumpb(b1.getvalue(),'CFF2',f); d2=dumpb(b2.getvalue(),'CFF2',f)
print('xml same', d1==d2)
print('\n'.join(list(difflib.unified_diff(d1.splitlines(), d2.splitlines(), lineterm='', n=1))[:40]))
p=x.reader['CFF2']; q=y.reader['CFF2']
for i,(c,d) in enumerate(zip(p,q)):
    if c!=d: print('first diff at', i, p[i-8:i+16].hex(), q[i-8:i+16].hex()); break
