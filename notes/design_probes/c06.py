import sys, io, glob, itertools, os
sys.path.insert(0,'/repo/Lib')
import logging; logging.disable(logging.CRITICAL)
from fontTools.ttLib import TTFont
from fontTools.ttLib.tables._c_m_a_p import CmapSubtable
import uharfbuzz as hb
PUA=0xF0000
def shape(font,text,feats):
    buf=hb.Buffer(); buf.add_codepoints(text); buf.guess_segment_properties(); hb.shape(font,buf,feats)
    return [(i.codepoint,p.x_advance,p.y_advance,p.x_offset,p.y_offset) for i,p in zip(buf.glyph_infos,buf.glyph_positions)]
tot=bad=0
for f in sorted(glob.glob('/repo/Tests/ttLib/tables/data/aots/g*.otf')):
    a=TTFont(f); n=len(a.getGlyphOrder())
    st=CmapSubtable.newSubtable(12); st.platformID=3; st.platEncID=10; st.language=0; st.cmap={PUA+i:g for i,g in enumerate(a.getGlyphOrder())}
    a['cmap'].tables=[t for t in a['cmap'].tables if (t.platformID,t.platEncID)!=(3,10)]+[st]
    b=io.BytesIO(); a.save(b); base=b.getvalue()   # layout tables passed through untouched (not loaded)
    outs={}
    for rep in (False,True):
        c=TTFont(io.BytesIO(base)); c.cfg['fontTools.ttLib.tables.otBase:USE_HARFBUZZ_REPACKER']=rep
        for t in ('GSUB','GPOS','GDEF'):
            if t in c: c[t]; 
        bb=io.BytesIO(); c.save(bb); outs[rep]=bb.getvalue()
    fonts={k:hb.Font(hb.Face(hb.Blob(v))) for k,v in list(outs.items())+[('orig',base)]}
    feats={}
    face=fonts['orig'].face
    tags=set()
    for tb in ('GSUB','GPOS'):
        try:
            for s in face.get_table_script_tags(tb):
                pass
        except Exception: pass
    tt=TTFont(io.BytesIO(base))
    for tb in ('GSUB','GPOS'):
        if tb in tt and tt[tb].table.FeatureList:
            for fr in tt[tb].table.FeatureList.FeatureRecord: tags.add(fr.FeatureTag)
    feats={t:True for t in tags}
    gl=list(range(min(n,24)))
    texts=[[PUA+x] for x in gl]+[[PUA+x,PUA+y] for x in gl for y in gl]+[[PUA+x,PUA+y,PUA+z] for x in gl[:10] for y in gl[:10] for z in gl[:10]]
    nb=0
    for t in texts:
        r={k:shape(v,t,feats) for k,v in fonts.items()}; tot+=1
        if not(r['orig']==r[False]==r[True]): nb+=1
    if nb: bad+=nb; print(os.path.basename(f),nb)
print(tot,bad)
