import sys, io, glob, os, collections
sys.path.insert(0, '/repo/Lib')
from fontTools.ttLib import TTFont
import logging; logging.disable(logging.CRITICAL)
files = sorted(glob.glob('/repo/Tests/**/*.ttx', recursive=True))
ok=0; fails=collections.Counter(); tagsets=collections.Counter(); okfiles=[]
for f in files:
    try:
        t = TTFont(recalcTimestamp=False); t.importXML(f)
        b = io.BytesIO(); t.save(b)
        b.seek(0); u = TTFont(b); 
        for k in u.keys(): u[k]
        ok+=1; okfiles.append(f)
        for k in u.keys(): tagsets[k]+=1
    except Exception as e:
        fails[type(e).__name__+':'+str(e)[:60]]+=1
print(ok, len(files)); print(fails.most_common(30)); print(sorted(tagsets.items()))
import json; json.dump(okfiles, open('/tmp/probe/ttx_ok.json','w'))
