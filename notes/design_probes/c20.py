import sys, io, glob, os, collections, random
sys.path.insert(0, '/repo/Lib')
from fontTools.ttLib import TTFont, TTLibError, TTCollection
import logging; logging.disable(logging.CRITICAL)
cnt=collections.Counter(); ex={}
files=['/repo/Tests/ttx/data/TestTTF.ttf','/repo/Tests/ttx/data/TestOTF.otf','/repo/Tests/ttx/data/TestWOFF.woff','/repo/Tests/ttx/data/TestWOFF2.woff2','/repo/Tests/ttx/data/TestTTC.ttc']
for f in files:
    data=open(f,'rb').read()
    # truncations: every length for first 600 bytes then stride
    lens=list(range(0,min(len(data),600)))+list(range(600,len(data),37))
    for L in lens:
        d=data[:L]
        for lazy in (None,True):
            try:
                t=TTFont(io.BytesIO(d), lazy=lazy, fontNumber=0 if f.endswith('.ttc') else -1)
                for tag in t.keys():
                    if tag=='GlyphOrder': continue
                    try: t.reader[tag]
                    except TTLibError: cnt['read:TTLibError']+=1
                    except Exception as e:
                        k='read:'+type(e).__name__; cnt[k]+=1; ex.setdefault(k,(f,L,tag,str(e)[:80]))
                cnt['open:ok']+=1
            except TTLibError: cnt['open:TTLibError']+=1
            except Exception as e:
                k='open:'+type(e).__name__; cnt[k]+=1; ex.setdefault(k,(os.path.basename(f),L,str(e)[:80]))
    # header/directory byte corruption
    rnd=random.Random(1)
    for pos in range(0,min(len(data),12+16*20)):
        for val in (0,0xFF,data[pos]^0x80):
            d=bytearray(data); d[pos]=val
            try:
                t=TTFont(io.BytesIO(bytes(d)), fontNumber=0 if f.endswith('.ttc') else -1)
                for tag in t.keys():
                    if tag=='GlyphOrder': continue
                    try: t.reader[tag]
                    except TTLibError: cnt['cread:TTLibError']+=1
                    except Exception as e:
                        k='cread:'+type(e).__name__; cnt[k]+=1; ex.setdefault(k,(os.path.basename(f),pos,val,tag,str(e)[:80]))
                cnt['copen:ok']+=1
            except TTLibError: cnt['copen:TTLibError']+=1
            except Exception as e:
                k='copen:'+type(e).__name__; cnt[k]+=1; ex.setdefault(k,(os.path.basename(f),pos,val,str(e)[:80]))
for g in [b'', b'\0'*3, b'hello world, this is not a font', os.urandom(100), b'OTTO', b'wOFF'+b'\0'*40, b'wOF2'+b'\0'*44, b'ttcf'+b'\0'*8, b'\0\1\0\0\xff\xff'+b'\0'*6]:
    try: TTFont(io.BytesIO(g)); cnt['garbage:ok']+=1
    except TTLibError: cnt['garbage:TTLibError']+=1
    except Exception as e:
        k='garbage:'+type(e).__name__; cnt[k]+=1; ex.setdefault(k,(g[:12],str(e)[:80]))
for k,v in sorted(cnt.items()): print(k,v, ex.get(k,''))
