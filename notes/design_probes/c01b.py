import sys, io, glob, os, traceback, hashlib
sys.path.insert(0, '/repo/Lib')
import fontTools; assert fontTools.__file__.startswith('/repo/Lib')
from fontTools.ttLib import TTFont, TTCollection
from fontTools.misc.xmlWriter import XMLWriter
import logging; logging.disable(logging.CRITICAL)

def dump(font, tag):
    s = io.StringIO()
    w = XMLWriter(s)
    font._tableToXML(w, tag)
    w.close()
    return s.getvalue()

files = sorted(glob.glob('/repo/Tests/**/*.[ot]tf', recursive=True)) + sorted(glob.glob('/repo/Tests/**/*.woff*', recursive=True))
res = {}
for f in files:
    try:
        a = TTFont(f, lazy=False, recalcBBoxes=False)
    except Exception as e:
        print('OPENFAIL', f, type(e).__name__, e); continue
    tags = [t for t in a.keys() if t != 'GlyphOrder']
    try:
        for t in tags: a[t]
    except Exception as e:
        print('DECOMPFAIL', f, t, type(e).__name__, str(e)[:100]); continue
    a.recalcTimestamp = False
    b1 = io.BytesIO()
    try:
        a.save(b1)
    except Exception as e:
        print('SAVEFAIL', f, type(e).__name__, str(e)[:100]); continue
    b1.seek(0)
    c = TTFont(b1, lazy=False, recalcBBoxes=False); c.recalcTimestamp=False
    o = TTFont(f, lazy=False)
    bad = []
    for t in tags:
        try:
            if dump(o, t) != dump(c, t): bad.append(t)
        except Exception as e:
            bad.append(t + ':' + type(e).__name__)
    for t in tags:
        try: c[t]
        except Exception as e: pass
    b2 = io.BytesIO()
    try:
        c.save(b2)
    except Exception as e:
        print('SAVE2FAIL', f, type(e).__name__, str(e)[:100]); continue
    fp = b1.getvalue() == b2.getvalue()
    if bad or not fp:
        difft = []
        if not fp:
            b2.seek(0); d = TTFont(b2, lazy=True); b1.seek(0); c2 = TTFont(b1, lazy=True)
            difft = [t for t in tags if c2.reader[t] != d.reader[t]]
        print('DIFF', f, 'content:', bad, 'fixedpoint:', fp, difft)
print('done', len(files))
