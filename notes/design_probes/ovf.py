import sys, io, time, random
sys.path.insert(0,'/repo/Lib')
import logging; logging.disable(logging.CRITICAL)
from fontTools.fontBuilder import FontBuilder
from fontTools.ttLib import TTFont, newTable
from fontTools.ttLib.tables import otTables as ot
from fontTools.otlLib import builder as B
from fontTools.pens.ttGlyphPen import TTGlyphPen
import uharfbuzz as hb
N=700
names=['.notdef']+['g%03d'%i for i in range(1,N)]
def basefont():
    fb=FontBuilder(1000,isTTF=True); fb.setupGlyphOrder(names)
    fb.setupCharacterMap({0xF0000+i:n for i,n in enumerate(names)})
    pen=TTGlyphPen(None); g=pen.glyph()
    fb.setupGlyf({n:g for n in names}); fb.setupHorizontalMetrics({n:(500,0) for n in names})
    fb.setupHorizontalHeader(ascent=800,descent=-200); fb.setupNameTable({'familyName':'T','styleName':'R'}); fb.setupOS2(); fb.setupPost()
    return fb.font
rnd=random.Random(1)
spec={}
for a in names[1:600]:
    for b in rnd.sample(names[1:],70):
        spec[(a,b)]=rnd.randint(-200,200) or 7
def gpos_from(spec, font):
    gm=font.getReverseGlyphMap()
    pairs={k:(B.buildValue({'XAdvance':v}),None) for k,v in spec.items()}
    subtables=B.buildPairPosGlyphs(pairs, gm)
    lookup=B.buildLookup(subtables)
    t=ot.GPOS(); t.Version=0x00010000
    t.LookupList=ot.LookupList(); t.LookupList.Lookup=[lookup]; t.LookupList.LookupCount=1
    fr=ot.FeatureRecord(); fr.FeatureTag='kern'; fr.Feature=ot.Feature(); fr.Feature.FeatureParams=None; fr.Feature.LookupListIndex=[0]; fr.Feature.LookupCount=1
    t.FeatureList=ot.FeatureList(); t.FeatureList.FeatureRecord=[fr]; t.FeatureList.FeatureCount=1
    sr=ot.ScriptRecord(); sr.ScriptTag='DFLT'; sr.Script=ot.Script(); sr.Script.DefaultLangSys=ot.DefaultLangSys(); sr.Script.DefaultLangSys.ReqFeatureIndex=0xFFFF; sr.Script.DefaultLangSys.FeatureIndex=[0]; sr.Script.DefaultLangSys.FeatureCount=1; sr.Script.DefaultLangSys.LookupOrder=None; sr.Script.LangSysRecord=[]; sr.Script.LangSysCount=0
    t.ScriptList=ot.ScriptList(); t.ScriptList.ScriptRecord=[sr]; t.ScriptList.ScriptCount=1
    tb=newTable('GPOS'); tb.table=t; return tb
for rep in (False, None, True):
    font=basefont(); font['GPOS']=gpos_from(spec,font)
    font.cfg['fontTools.ttLib.tables.otBase:USE_HARFBUZZ_REPACKER']=rep
    t0=time.time(); b=io.BytesIO()
    try:
        font.save(b)
    except Exception as e:
        print(rep,'EXC',type(e).__name__,str(e)[:100]); continue
    dt=time.time()-t0
    lk=font['GPOS'].table.LookupList.Lookup[0]
    print('repacker',rep,'time %.1fs'%dt,'size',len(TTFont(io.BytesIO(b.getvalue())).reader['GPOS']),'subtables',len(lk.SubTable), 'type', lk.LookupType)
    hf=hb.Font(hb.Face(hb.Blob(b.getvalue())))
    bad=0; t0=time.time(); n=0
    keys=list(spec.items())
    for (a,c),v in rnd.sample(keys,3000):
        buf=hb.Buffer(); buf.add_codepoints([0xF0000+names.index(a),0xF0000+names.index(c)]); buf.guess_segment_properties(); hb.shape(hf,buf,{'kern':True})
        if buf.glyph_positions[0].x_advance!=500+v: bad+=1
        n+=1
    print('  shaped',n,'bad',bad,'%.1fs'%(time.time()-t0))
