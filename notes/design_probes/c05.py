import sys, io, glob, os, json, random, math
sys.path.insert(0, '/repo/Lib')
from fontTools.ttLib import TTFont
from fontTools.pens.recordingPen import RecordingPen, DecomposingRecordingPen
from fontTools.pens.basePen import decomposeQuadraticSegment, decomposeSuperBezierSegment
import uharfbuzz as hb
import logging; logging.disable(logging.CRITICAL)

def canon(rec):
    """list of contours; each contour = list of segments (type, pts...) with absolute points, closed; drop zero-length lines"""
    contours=[]; cur=None; start=None; pt=None
    for op,args in rec:
        if op=='moveTo':
            if cur: contours.append(cur)
            cur=[]; start=pt=args[0]
        elif op=='lineTo':
            if args[0]!=pt: cur.append(('l',pt,args[0]))
            pt=args[0]
        elif op=='qCurveTo':
            if args[-1] is None:
                # no on-curve: synthesize
                offs=list(args[:-1]); n=len(offs)
                s=((offs[-1][0]+offs[0][0])/2,(offs[-1][1]+offs[0][1])/2)
                start=pt=s; 
                segs=decomposeQuadraticSegment(offs+[s])
            else:
                segs=decomposeQuadraticSegment(args)
            for c,e in segs:
                cur.append(('q',pt,c,e)); pt=e
        elif op=='curveTo':
            for c1,c2,e in decomposeSuperBezierSegment(args):
                cur.append(('c',pt,c1,c2,e)); pt=e
        elif op in('closePath','endPath'):
            if pt!=start and cur is not None: cur.append(('l',pt,start))
            if cur is not None: contours.append(cur)
            cur=None
    if cur: contours.append(cur)
    return [c for c in contours if c]

def close(a,b,tol):
    return all(abs(x-y)<=tol for p,q in zip(a,b) for x,y in zip(p,q))
def seg_eq(s,t,tol):
    return s[0]==t[0] and close(s[1:],t[1:],tol)
def contour_eq(a,b,tol):
    if len(a)!=len(b): return False
    n=len(a)
    for r in range(n):
        if all(seg_eq(a[i],b[(i+r)%n],tol) for i in range(n)): return True
    return False
def outline_eq(A,B,tol):
    if len(A)!=len(B): return False
    return all(contour_eq(a,b,tol) for a,b in zip(A,B))

files = sorted(glob.glob('/repo/Tests/**/*.[ot]tf', recursive=True))
files = [f for f in files if '/aots/' not in f] + files[:0]
random.seed(1)
tot=bad=0
for f in files:
    try:
        ft = TTFont(f)
        if 'glyf' not in ft and 'CFF ' not in ft and 'CFF2' not in ft: continue
        blob=hb.Blob.from_file_path(f); face=hb.Face(blob); font=hb.Font(face)
        locs=[None]
        if 'fvar' in ft:
            axes=ft['fvar'].axes
            for k in range(3):
                locs.append({a.axisTag: random.uniform(a.minValue,a.maxValue) for a in axes})
        for loc in locs:
            gs = ft.getGlyphSet(location=loc)
            font=hb.Font(face)
            if loc: font.set_variations(loc)
            nb=0
            for gid,name in enumerate(ft.getGlyphOrder()):
                p=RecordingPen(); 
                try: gs[name].draw(p)
                except Exception as e:
                    print('DRAWEXC', f, name, type(e).__name__, e); continue
                # decompose components
                if any(op=='addComponent' for op,_ in p.value):
                    p2=DecomposingRecordingPen(gs); gs[name].draw(p2); p=p2
                q=RecordingPen(); font.draw_glyph_with_pen(gid,q)
                A=canon(p.value); B=canon(q.value)
                tot+=1
                adv_ok = abs(gs[name].width - font.get_glyph_h_advance(gid))<=0.51
                if not outline_eq(A,B,0.02) or not adv_ok:
                    nb+=1; bad+=1
                    if nb<=2: print('MISMATCH', os.path.basename(f), loc, name, 'adv', gs[name].width, font.get_glyph_h_advance(gid), len(A), len(B), A[:1], B[:1])
    except Exception as e:
        print('EXC', f, type(e).__name__, str(e)[:100])
print('total', tot, 'bad', bad)
