import sys, io, os, re, random, tempfile, json, collections
sys.path.insert(0,'/repo/Lib')
import logging; logging.disable(logging.CRITICAL)
scratch=tempfile.mkdtemp()
TOKEN='VMONCANARY'
hits=[]; libevals=collections.Counter()
def hook(e,a):
    if e=='exec':
        co=a[0]
        blob=' '.join(map(str,co.co_names))+' '+' '.join(map(repr,co.co_consts))
        if TOKEN in blob: hits.append(('exec',blob[:80]))
        elif co.co_filename=='<string>': libevals[co.co_names]+=1
    elif e=='open':
        if isinstance(a[0],str) and TOKEN in a[0]: hits.append(('open',a[0],a[1]))
    elif e in ('os.system','subprocess.Popen'): hits.append((e,str(a)[:80]))
sys.addaudithook(hook)
from fontTools.ttLib import TTFont
payloads=["__import__('os').system('touch %s/%s_A')"%(scratch,TOKEN), "open('%s/%s_B','w')"%(scratch,TOKEN), "%s_C.__class__"%TOKEN, "[%s]"%("["*60+"]"*60), "0x41 if %s else 1"%TOKEN]
ok=json.load(open('/tmp/probe/ttx_ok.json'))
rnd=random.Random(1); cases=0; outcomes=collections.Counter()
attr_re=re.compile(r'(\s[A-Za-z_:][\w:.-]*=")([^"]*)(")')
for f in rnd.sample(ok,60):
    txt=open(f,encoding='utf-8',errors='replace').read()
    ms=list(attr_re.finditer(txt))
    if not ms: continue
    # one mutated file per distinct (attr name) up to 25
    byname={}
    for m in ms: byname.setdefault(m.group(1).strip(),[]).append(m)
    for name,lst in list(byname.items())[:25]:
        m=rnd.choice(lst); pl=rnd.choice(payloads).replace('&','&amp;').replace('<','&lt;').replace('"','&quot;')
        mut=txt[:m.start(2)]+pl+txt[m.end(2):]
        cases+=1
        try:
            t=TTFont(); t.importXML(io.StringIO(mut)) if False else t.importXML(io.BytesIO(mut.encode('utf-8')))
            b=io.BytesIO(); t.save(b); outcomes['accepted']+=1
        except RecursionError: outcomes['RecursionError']+=1
        except Exception as e: outcomes[type(e).__name__]+=1
print('cases',cases,'canary hits',hits[:5],'files in scratch',os.listdir(scratch))
print('outcomes',outcomes.most_common())
print('library-constant evals',sum(libevals.values()),list(libevals.items())[:5])
import shutil; shutil.rmtree(scratch)
