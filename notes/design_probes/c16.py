import sys, io, glob, os, json
sys.path.insert(0, '/repo/Lib')
from fontTools.ttLib import TTFont
from fontTools.misc.xmlWriter import XMLWriter
import logging; logging.disable(logging.CRITICAL)
def dump(font, tag):
    s = io.StringIO(); w = XMLWriter(s); font._tableToXML(w, tag); w.close(); return s.getvalue()
files = sorted(glob.glob('/repo/Tests/**/*.[ot]tf', recursive=True)) + json.load(open('/tmp/probe/ttx_ok.json'))
for f in files:
    try:
        if f.endswith('.ttx'):
            a = TTFont(recalcTimestamp=False); a.importXML(f)
        else:
            a = TTFont(f, lazy=False, recalcTimestamp=False)
        tags = [t for t in a.keys() if t != 'GlyphOrder']
        for t in tags: a[t]
        if not f.endswith('.ttx'):
            a.ensureDecompiled()
        d0 = {t: dump(a,t) for t in tags}
        b1 = io.BytesIO(); a.save(b1)
        d1 = {t: dump(a,t) for t in tags}
        b2 = io.BytesIO(); a.save(b2)
        bad = [t for t in tags if d0[t]!=d1[t]]
        if bad or b1.getvalue()!=b2.getvalue():
            difft=[]
            if b1.getvalue()!=b2.getvalue():
                b1.seek(0); b2.seek(0); x=TTFont(b1,lazy=True); y=TTFont(b2,lazy=True)
                difft=[t for t in tags if x.reader[t]!=y.reader[t]]
            print('DIFF', f, 'dumpchanged', bad, 'bytesdiff', difft)
    except Exception as e:
        print('EXC', f, type(e).__name__, str(e)[:80])
print('done', len(files))
