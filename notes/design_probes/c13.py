import sys, random, math
sys.path.insert(0,'/repo/Lib')
from fontTools.cu2qu import curve_to_quadratic, curves_to_quadratic
from fontTools.cu2qu.errors import ApproxNotFoundError
from fontTools.qu2cu import quadratic_to_curves
def lerp(a,b,t): return (a[0]+(b[0]-a[0])*t, a[1]+(b[1]-a[1])*t)
def split(c,t):
    p01=lerp(c[0],c[1],t);p12=lerp(c[1],c[2],t);p23=lerp(c[2],c[3],t);p012=lerp(p01,p12,t);p123=lerp(p12,p23,t);m=lerp(p012,p123,t)
    return (c[0],p01,p012,m),(m,p123,p23,c[3])
def piece(c,a,b):
    # sub-curve between params a..b
    if a>0: c=split(c,a)[1]; b=(b-a)/(1-a)
    if b<1: c=split(c,b)[0]
    return c
def ev(c,t):
    mt=1-t; return tuple(mt**3*c[0][i]+3*mt*mt*t*c[1][i]+3*mt*t*t*c[2][i]+t**3*c[3][i] for i in range(2))
def elevate(q): return (q[0], lerp(q[0],q[1],2/3), lerp(q[2],q[1],2/3), q[2])
def spline_segs(s):
    # s: p0, off1..offk, pN with implied oncurves
    segs=[]; p=s[0]
    for i in range(1,len(s)-1):
        off=s[i]; nxt=s[i+1] if i==len(s)-2 else lerp(s[i],s[i+1],0.5)
        segs.append((p,off,nxt)); p=nxt
    return segs
rnd=random.Random(1); worst=0; n=0; bad=0; exc=0
for k in range(40000):
    mag=rnd.choice([1,100,1000,100000])
    kind=rnd.random()
    P=[(rnd.uniform(-mag,mag),rnd.uniform(-mag,mag)) for _ in range(4)]
    if kind<0.1: P[1]=P[0]
    elif kind<0.2: P[3]=P[0]
    elif kind<0.3: P=[(x,0.0) for x,_ in P]
    elif kind<0.35: P=[P[0]]*4
    if rnd.random()<0.5: P=[(round(x),round(y)) for x,y in P]
    tol=rnd.choice([0.001,0.1,1,10,mag])
    try: s=curve_to_quadratic(P,tol)
    except ApproxNotFoundError: exc+=1; continue
    n+=1
    if s[0]!=tuple(map(float,P[0])) or s[-1]!=tuple(map(float,P[3])): bad+=1; print('ENDPOINT',P,s[:1],s[-1:])
    segs=spline_segs(s); m=len(segs)
    err=0
    for i,q in enumerate(segs):
        c=piece(tuple(P),i/m,(i+1)/m); e=elevate(q)
        for j in range(33):
            t=j/32; a=ev(c,t); b=ev(e,t); err=max(err,math.hypot(a[0]-b[0],a[1]-b[1]))
    if err>tol*(1+1e-6)+1e-9*mag:
        bad+=1
        if bad<10: print('OVER',P,tol,err,m)
    worst=max(worst,err/tol)
print(n,'ok',bad,'bad',exc,'exc','worst ratio',worst)
