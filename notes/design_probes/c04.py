import sys, io, glob, struct, json, math
sys.path.insert(0,'/repo/Lib')
import logging; logging.disable(logging.CRITICAL)
from fontTools.ttLib import TTFont
def csum(b):
    b=b+b'\0'*((4-len(b)%4)%4); return sum(struct.unpack('>%dI'%(len(b)//4),b))&0xFFFFFFFF
def check_sfnt(d):
    errs=[]
    ver,n,sr,es,rs=struct.unpack('>4sHHHH',d[:12])
    p=1<<int(math.log2(n)) if n else 0
    if n and (sr,es,rs)!=(p*16,int(math.log2(p)),n*16-p*16): errs.append(('search',n,sr,es,rs))
    ents=[struct.unpack('>4sIII',d[12+16*i:28+16*i]) for i in range(n)]
    if [e[0] for e in ents]!=sorted(e[0] for e in ents): errs.append('dir order')
    spans=sorted((o,l,t) for t,c,o,l in ents)
    end=12+16*n
    for o,l,t in spans:
        if o%4: errs.append(('align',t))
        if o<end: errs.append(('overlap',t))
        if any(d[end:o]) : errs.append(('gap nonzero',t))
        end=o+l
        pad=(4-l%4)%4
        if any(d[o+l:o+l+pad]): errs.append(('pad nonzero',t))
        end=o+l
    if len(d)!=((end+3)&~3): errs.append(('filelen',len(d),end))
    for t,c,o,l in ents:
        data=d[o:o+l]
        if t==b'head': data=data[:8]+b'\0\0\0\0'+data[12:]
        if csum(data)!=c: errs.append(('checksum',t))
    if any(t==b'head' for t,_,_,_ in ents):
        t,c,o,l=[e for e in ents if e[0]==b'head'][0]
        adj=struct.unpack('>I',d[o+8:o+12])[0]
        z=d[:o+8]+b'\0\0\0\0'+d[o+12:]
        if (0xB1B0AFBA-csum(z))&0xFFFFFFFF!=adj: errs.append('checkSumAdjustment')
    return errs
files=sorted(glob.glob('/repo/Tests/**/*.[ot]tf',recursive=True))+json.load(open('/tmp/probe/ttx_ok.json'))
bad=0;n=0
for f in files:
    try:
        if f.endswith('.ttx'): a=TTFont(); a.importXML(f)
        else: a=TTFont(f)
        for ro in (True,False,None):
            if ro is False and a.reader is None: continue
            b=io.BytesIO(); a.save(b, reorderTables=ro); e=check_sfnt(b.getvalue()); n+=1
            if ro is not True: e=[x for x in e]  # data order may differ; dir must still be sorted
            if e: bad+=1; print(f.replace('/repo/Tests/',''),ro,e[:4])
    except Exception as ex:
        pass
print(n,bad)
