import sys, io, glob, os, json, random
sys.path.insert(0, '/repo/Lib')
from fontTools.ttLib import TTFont
from fontTools import subset
from fontTools.ttLib.tables._c_m_a_p import CmapSubtable
import uharfbuzz as hb
import logging; logging.disable(logging.CRITICAL)
PUA=0xF0000
def load(f):
    if f.endswith('.ttx'):
        a=TTFont(recalcTimestamp=False); a.importXML(f); b=io.BytesIO(); a.save(b); b.seek(0); return TTFont(b)
    return TTFont(f)
def add_pua(font):
    order=font.getGlyphOrder()
    cm=font['cmap']
    st=CmapSubtable.newSubtable(12); st.platformID=3; st.platEncID=10; st.language=0
    best=font.getBestCmap() or {}
    st.cmap=dict(best); 
    for i,g in enumerate(order): st.cmap[PUA+i]=g
    cm.tables=[t for t in cm.tables if not (t.platformID==3 and t.platEncID==10)]+[st]
def shape(data, text, feats, order):
    face=hb.Face(hb.Blob(data)); font=hb.Font(face)
    buf=hb.Buffer(); buf.add_codepoints(text); buf.guess_segment_properties()
    hb.shape(font,buf,feats)
    return [(order[i.codepoint] if i.codepoint<len(order) else i.codepoint, p.x_advance,p.y_advance,p.x_offset,p.y_offset) for i,p in zip(buf.glyph_infos,buf.glyph_positions)]
files=[f for f in json.load(open('/tmp/probe/ttx_ok.json')) if '/subset/data/' in f and 'expect' not in f] + ['/repo/Tests/cffLib/data/LinLibertine_RBI.otf','/repo/Tests/ttLib/data/IBMPlexSans-Bold.subset.otf']
rnd=random.Random(3)
tot=bad=0
for f in files:
    try:
        font=load(f)
        if 'cmap' not in font or 'hmtx' not in font or not ('GSUB' in font or 'GPOS' in font or 'kern' in font): continue
        add_pua(font)
        b=io.BytesIO(); font.save(b); orig=b.getvalue()
        oorder=font.getGlyphOrder()
        allcps=sorted(font.getBestCmap())
        for trial in range(3):
            k=rnd.randint(1,max(1,min(len(allcps),40)))
            cps=rnd.sample(allcps,k)
            f2=TTFont(io.BytesIO(orig))
            oorder=f2.getGlyphOrder()[:]
            opts=subset.Options(); opts.layout_features=['*']; opts.glyph_names=True; opts.legacy_kern=True; opts.notdef_outline=True
            s=subset.Subsetter(opts); s.populate(unicodes=cps); s.subset(f2)
            b2=io.BytesIO(); f2.save(b2); sub=b2.getvalue(); sorder=f2.getGlyphOrder()
            for t in range(30):
                text=[rnd.choice(cps) for _ in range(rnd.randint(1,6))]
                r1=shape(orig,text,{},oorder); r2=shape(sub,text,{},sorder)
                tot+=1
                if r1!=r2:
                    bad+=1
                    if bad<15: print('MISMATCH', os.path.basename(f), [hex(c) for c in text], r1, r2)
    except Exception as e:
        import traceback
        print('EXC', f, type(e).__name__, str(e)[:200])
print('total',tot,'bad',bad)
