import sys, ast, io, copy
sys.path.insert(0,'/repo/Lib')
# 7: audit events
ev=[]
def hook(e,a):
    if e in('exec','compile'): ev.append((e, type(a[0]).__name__, (a[0].co_names if e=='exec' else (a[0][:30] if isinstance(a[0],(str,bytes)) else type(a[0]).__name__))))
sys.addaudithook(hook)
ast.literal_eval("[1,2,'CANARY']")
print('literal_eval ->', [x for x in ev]); ev.clear()
eval("len('CANARY_x')")
print('eval ->', ev); ev.clear()
# 4: sys.monitoring local line events with DISABLE
from fontTools.ttLib.tables import _c_m_a_p
import inspect
mon=sys.monitoring; TID=3; mon.use_tool_id(TID,'vmon')
hits=set()
def line_cb(code, line):
    hits.add((code.co_name,line)); return mon.DISABLE
mon.register_callback(TID, mon.events.LINE, line_cb)
code=_c_m_a_p.cmap_format_4.compile.__code__
mon.set_local_events(TID, code, mon.events.LINE)
from fontTools.ttLib import TTFont
f=TTFont('/repo/Tests/ttx/data/TestTTF.ttf'); f['cmap']; b=io.BytesIO(); f.save(b)
print('lines hit in cmap_format_4.compile:', len(hits), 'of', len({l for _,_,l in code.co_lines() if l}))
# failpoint: raise at a line
class Inj(Exception): pass
target=sorted(hits)[5]
def line_cb2(code,line):
    if (code.co_name,line)==target: raise Inj(str(target))
mon.register_callback(TID, mon.events.LINE, line_cb2); mon.restart_events()
mon.set_local_events(TID, code, mon.events.LINE)
try:
    f=TTFont('/repo/Tests/ttx/data/TestTTF.ttf'); f['cmap']; f.save(io.BytesIO()); print('no raise')
except Inj as e: print('failpoint raised', e)
mon.set_local_events(TID, code, 0)
# 5: deepcopy
f=TTFont('/repo/Tests/ttx/data/TestTTF.ttf'); f['glyf']
g=copy.deepcopy(f); b1=io.BytesIO(); g.save(b1); b2=io.BytesIO(); f.save(b2); print('deepcopy save equal', b1.getvalue()==b2.getvalue())
try:
    f=TTFont('/repo/Tests/ttx/data/TestTTF.ttf', lazy=True); g=copy.deepcopy(f); print('lazy deepcopy ok')
except Exception as e: print('lazy deepcopy fails:', type(e).__name__, e)
