import sys, io, glob, os, json, random, math
sys.path.insert(0, '/repo/Lib')
from fontTools.ttLib import TTFont
from fontTools import varLib
from fontTools.designspaceLib import DesignSpaceDocument
from fontTools.pens.recordingPen import RecordingPen
import uharfbuzz as hb
import logging; logging.disable(logging.CRITICAL)
def pts(font,gid):
    p=RecordingPen(); font.draw_glyph_with_pen(gid,p)
    return [(op,[c for pt in a for c in pt]) for op,a in p.value]
def maxdiff(A,B):
    if [a[0] for a in A]!=[b[0] for b in B]: return None
    m=0
    for (o,a),(o2,b) in zip(A,B):
        if len(a)!=len(b): return None
        for x,y in zip(a,b): m=max(m,abs(x-y))
    return m
D='/repo/Tests/varLib/data/'
dirs=['master_ttx_interpolatable_ttf','master_ttx_interpolatable_otf','master_cff2','master_cff2_input','master_sparse_cff2','master_sparse_cff2_empty','master_ttx_getvar_ttf','master_vpal_test','master_kerning_merging','master_base_test','master_ttx_varcolr_ttf','master_no_overwrite_stat','master_incompatible_arrays','master_ttx_drop_oncurves','master_vvar_cff2','master_ttx_variable_sparse', 'master_ufo']
for dsf in sorted(glob.glob(D+'*.designspace')):
    ds=DesignSpaceDocument.fromfile(dsf)
    def finder(s):
        base=os.path.basename(s).replace('.ufo','.ttx')
        for d in os.listdir(D):
            p=os.path.join(D,d,base)
            if os.path.exists(p): return p
        return s
    try:
        vf,model,_=varLib.build(dsf, finder, optimize=False)
    except Exception as e:
        print('BUILDEXC', os.path.basename(dsf), type(e).__name__, str(e)[:120]); continue
    try:
        b=io.BytesIO(); vf.save(b); vfb=b.getvalue()
    except Exception as e:
        print('SAVEEXC', os.path.basename(dsf), type(e).__name__, str(e)[:100]); continue
    vfont=hb.Font(hb.Face(hb.Blob(vfb)))
    worst=0; wa=0; n=0; struct=0
    for src in ds.sources:
        mp=finder(src.filename if src.filename else src.path)
        try:
            m=TTFont(recalcTimestamp=False); m.importXML(mp) if mp.endswith('.ttx') else None
            if not mp.endswith('.ttx'): m=TTFont(mp)
        except Exception as e:
            print('MEXC', mp, e); continue
        try:
            mb=io.BytesIO(); m.save(mb)
        except Exception as e:
            print('MSAVEEXC', mp, e); continue
        mf=hb.Font(hb.Face(hb.Blob(mb.getvalue())))
        loc=src.getFullDesignLocation(ds) if hasattr(src,'getFullDesignLocation') else src.location
        user={}
        for a in ds.axes:
            user[a.tag]=a.map_backward(loc[a.name])
        vfont.set_variations(user)
        morder=m.getGlyphOrder(); vorder=vf.getGlyphOrder()
        for gid,name in enumerate(vorder):
            if name not in morder: continue
            mg=morder.index(name)
            d=maxdiff(pts(vfont,gid),pts(mf,mg)); n+=1
            if d is None: struct+=1
            else: worst=max(worst,d)
            wa=max(wa,abs(vfont.get_glyph_h_advance(gid)-mf.get_glyph_h_advance(mg)))
    print(os.path.basename(dsf), 'n',n,'worst',round(worst,3),'adv',wa,'structdiff',struct)
