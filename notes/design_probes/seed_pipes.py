import sys, io, os, hashlib, json, glob
sys.path.insert(0,'/repo/Lib')
import logging; logging.disable(logging.CRITICAL)
os.environ['SOURCE_DATE_EPOCH']='0'
from fontTools.ttLib import TTFont
from fontTools import subset, varLib
from fontTools.varLib import instancer
from fontTools.merge import Merger
def load(f):
    if f.endswith('.ttx'):
        a=TTFont(); a.importXML(f); b=io.BytesIO(); a.save(b); b.seek(0); return TTFont(b)
    return TTFont(f)
def H(font):
    b=io.BytesIO(); font.save(b); return hashlib.sha256(b.getvalue()).hexdigest()[:12]
out={}
ok=json.load(open('/tmp/probe/ttx_ok.json'))
for f in [x for x in ok if '/subset/data/' in x and 'expect' not in x][:40]+['/repo/Tests/cffLib/data/LinLibertine_RBI.otf']:
    try:
        font=load(f)
        if 'cmap' not in font: continue
        cps=sorted(font.getBestCmap() or {})[::2]
        if not cps: continue
        o=subset.Options(); o.layout_features=['*']; o.glyph_names=True
        s=subset.Subsetter(o); s.populate(unicodes=cps); s.subset(font)
        out['subset:'+os.path.basename(f)]=H(font)
    except Exception as e: out['subset:'+os.path.basename(f)]='EXC:'+type(e).__name__
for f in [x for x in ok if 'instancer/data/' in x and 'test_results' not in x]+[x for x in ok if 'varLib/data/Test' in x]:
    try:
        font=load(f)
        if 'fvar' not in font: continue
        ax=font['fvar'].axes
        lim={a.axisTag:((a.minValue+a.defaultValue)/2,(a.maxValue+a.defaultValue)/2) for a in ax[:1]}
        for a in ax[1:2]: lim[a.axisTag]=a.maxValue
        out['inst:'+os.path.basename(f)]=H(instancer.instantiateVariableFont(font,lim))
    except Exception as e: out['inst:'+os.path.basename(f)]='EXC:'+type(e).__name__+str(e)[:40]
D='/repo/Tests/varLib/data/'
for ds in ['BuildAvarSingleAxis','BuildAvarIdentityMaps','BuildGvarCompositeExplicitDelta','DropOnCurves','InconsistentUseMyMetrics','BuildAvarEmptyAxis']:
    def finder(s):
        base=os.path.basename(s).replace('.ufo','.ttx')
        for d in sorted(os.listdir(D)):
            p=os.path.join(D,d,base)
            if os.path.exists(p): return p
        return s
    try:
        vf,_,_=varLib.build(D+ds+'.designspace',finder); out['build:'+ds]=H(vf)
    except Exception as e: out['build:'+ds]='EXC:'+type(e).__name__
print(json.dumps(out,sort_keys=True))
