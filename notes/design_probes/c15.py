import sys, io, random, itertools
sys.path.insert(0,'/repo/Lib')
from fontTools.misc.fixedTools import *
from fontTools.misc import psCharStrings as ps
from fontTools.ttLib import woff2
from fontTools.ttLib.tables.TupleVariation import TupleVariation
from fontTools.ttLib.ttFont import tagToIdentifier, identifierToTag, tagToXML, xmlToTag
from fontTools.misc import eexec, iftSparseBitSet
from fontTools.ttLib.tables.otTables import _read_uint32var, _write_uint32var
bad={}
def B(k,v): bad.setdefault(k,[]).append(v)
for i in range(-32768,32768):
    f=fixedToFloat(i,14)
    if floatToFixed(f,14)!=i: B('f2dot14 float',i)
    s=fixedToStr(i,14)
    if strToFixed(s,14)!=i: B('f2dot14 str',(i,s))
    if floatToFixedToStr(f,14)!=s: B('f2dot14 f2s',(i,s))
for i in list(range(-70000,70001))+[2**31-1,-2**31]:
    for kind in ('cff','t2'):
        enc=ps.getIntEncoder(kind)
        try: data=enc(i)
        except Exception as e: B(kind+' int enc exc',(i,type(e).__name__)); continue
        # decode using T2CharString / dict decompiler
        if kind=='t2':
            cs=ps.T2CharString(bytecode=data+b'\x0e'); cs.decompile(); v=cs.program[0]
        else:
            from fontTools.cffLib import TopDictDecompiler
            d=ps.DictDecompiler.__new__(ps.DictDecompiler); d.stack=[]; d.dict={}; d.strings=None; d.parent=None
            b0=data[0]
            v,idx=ps.cffDictOperandEncoding[b0](d,b0,data,1)
        if v!=i and not (kind=='t2' and abs(i)>32767):
            B(kind+' int',(i,v))
        if kind=='t2' and abs(i)>32767 and abs(v-i)>1e-4: B('t2 bigint',(i,v))
for n in list(range(0,1<<21))[::7]+[(1<<k)+d for k in range(7,33,7) for d in (-1,0,1)]+[2**32-1]:
    if n<0 or n>2**32-1: continue
    data=woff2.packBase128(n); v,rest=woff2.unpackBase128(data+b'xx')
    if v!=n or rest!=b'xx' or len(data)!=woff2.base128Size(n): B('base128',n)
for n in range(65536):
    data=woff2.pack255UShort(n); v,rest=woff2.unpack255UShort(data+b'zz')
    if v!=n or rest!=b'zz': B('255ushort',n)
for n in [0,1,127,128,16383,16384,2**21-1,2**21,2**28-1,2**28,2**32-1]+[random.randrange(2**32) for _ in range(20000)]:
    d=_write_uint32var(n); v,i=_read_uint32var(d+b'q',0)
    if v!=n or i!=len(d): B('uint32var',n)
rnd=random.Random(1)
for k in range(20000):
    npts=rnd.choice([1,2,5,127,128,129,300,70000])
    cnt=rnd.choice([0,1,2,63,64,65,126,127,128,129,200])
    pts=sorted(rnd.sample(range(npts),min(cnt,npts)))
    if k>2000: break
    data=TupleVariation.compilePoints(set(pts))
    got,pos=TupleVariation.decompilePoints_(npts,data,0,'gvar')
    if list(got)!=pts and not (len(pts)==0): B('points',(npts,pts[:5],list(got)[:5]))
vals=[0,1,-1,127,128,-128,-129,32767,-32768,63,64]
for L in range(1,5):
    for seq in itertools.product([0,1,-1,127,128,-128,-129,32767,-32768],repeat=L):
        data=TupleVariation.compileDeltaValues_(list(seq)); got,pos=TupleVariation.decompileDeltas_(L,data,0)
        if list(got)!=list(seq) or pos!=len(data): B('deltas',seq)
for v in vals:
    for n in (62,63,64,65,66,127,128,129,130):
        seq=[v]*n+[5]+[0]*n
        data=TupleVariation.compileDeltaValues_(seq); got,pos=TupleVariation.decompileDeltas_(len(seq),data,0)
        if list(got)!=seq or pos!=len(data): B('delta runs',(v,n))
import string
chars=[chr(c) for c in range(32,127)]
for t in itertools.product(rnd.sample(chars,24),repeat=2):
    for tail in ('ab','  ','a ','/2','_x','9Z'):
        tag=''.join(t)+tail
        try:
            if identifierToTag(tagToIdentifier(tag))!=tag: B('tagId',tag)
        except Exception as e: B('tagId exc',(tag,type(e).__name__))
        try:
            if xmlToTag(tagToXML(tag))!=tag: B('tagXML',tag)
        except Exception as e: B('tagXML exc',(tag,type(e).__name__))
for key in (4330,55665,1234):
    for L in (0,1,2,10,300):
        s=bytes(rnd.randrange(256) for _ in range(L)); c,R=eexec.encrypt(s,key); p,R2=eexec.decrypt(c,key)
        if p!=s or R!=R2: B('eexec',(key,L))
for k in range(3000):
    n=rnd.choice([0,1,3,16,100]); mx=rnd.choice([1,8,255,256,70000,2**20])
    vs=set(rnd.randrange(mx) for _ in range(n))
    try:
        data=iftSparseBitSet.encode(vs); got=iftSparseBitSet.decode(data)
        got=got[0] if isinstance(got,tuple) else got
        if set(got)!=vs: B('sparsebitset',(sorted(vs)[:5],sorted(got)[:5]))
    except Exception as e: B('sparsebitset exc',(sorted(vs)[:5],type(e).__name__,str(e)[:40]))
for k,v in bad.items(): print(k,len(v),v[:5])
print('done')
